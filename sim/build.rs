fn main() {
    println!("cargo:rerun-if-changed=csrc/detrand.c");
    cc::Build::new().file("csrc/detrand.c").opt_level(2).compile("detrand");
}
