// Deterministic randomness seam for the simulator (no change in /repo needed).
// std's RandomState and the `getrandom` crate (rand::thread_rng / OsRng) both end up in
// getrandom(2): std binds the libc symbol `getrandom`, the crate goes through `syscall(SYS_getrandom)`.
// Both are defined here, so the whole process draws its "OS entropy" from a seeded splitmix64 stream.
// Everything else passed to syscall() is forwarded to the kernel unchanged.
#define _GNU_SOURCE
#include <stdint.h>
#include <stddef.h>
#include <sys/types.h>
#include <sys/syscall.h>
#include <stdarg.h>
#include <errno.h>

static volatile uint64_t detrand_state = 0x9E3779B97F4A7C15ull;
static volatile int detrand_enabled = 0;
static volatile uint64_t detrand_calls = 0;

void detrand_seed(uint64_t seed) {
    detrand_state = seed ^ 0xD6E8FEB86659FD93ull;
    detrand_enabled = 1;
}

uint64_t detrand_call_count(void) { return detrand_calls; }

static uint64_t next64(void) {
    uint64_t z = __atomic_add_fetch(&detrand_state, 0x9E3779B97F4A7C15ull, __ATOMIC_SEQ_CST);
    z = (z ^ (z >> 30)) * 0xBF58476D1CE4E5B9ull;
    z = (z ^ (z >> 27)) * 0x94D049BB133111EBull;
    return z ^ (z >> 31);
}

static long raw_syscall6(long n, long a, long b, long c, long d, long e, long f) {
    long ret;
    register long r10 __asm__("r10") = d;
    register long r8 __asm__("r8") = e;
    register long r9 __asm__("r9") = f;
    __asm__ volatile("syscall"
                     : "=a"(ret)
                     : "a"(n), "D"(a), "S"(b), "d"(c), "r"(r10), "r"(r8), "r"(r9)
                     : "rcx", "r11", "memory");
    return ret;
}

static ssize_t fill(void *buf, size_t len) {
    unsigned char *p = (unsigned char *)buf;
    size_t i = 0;
    __atomic_add_fetch(&detrand_calls, 1, __ATOMIC_SEQ_CST);
    while (i < len) {
        uint64_t v = next64();
        for (int k = 0; k < 8 && i < len; k++, i++) {
            p[i] = (unsigned char)(v >> (8 * k));
        }
    }
    return (ssize_t)len;
}

ssize_t getrandom(void *buf, size_t buflen, unsigned int flags) {
    if (detrand_enabled) {
        return fill(buf, buflen);
    }
    long r = raw_syscall6(SYS_getrandom, (long)buf, (long)buflen, (long)flags, 0, 0, 0);
    if (r < 0) {
        errno = (int)-r;
        return -1;
    }
    return (ssize_t)r;
}

long syscall(long number, ...) {
    va_list ap;
    va_start(ap, number);
    long a = va_arg(ap, long);
    long b = va_arg(ap, long);
    long c = va_arg(ap, long);
    long d = va_arg(ap, long);
    long e = va_arg(ap, long);
    long f = va_arg(ap, long);
    va_end(ap);
    if (number == SYS_getrandom && detrand_enabled) {
        return (long)fill((void *)a, (size_t)b);
    }
    long r = raw_syscall6(number, a, b, c, d, e, f);
    if (r < 0 && r > -4096) {
        errno = (int)-r;
        return -1;
    }
    return r;
}
