mod events;
mod hooks;
mod node;
mod obs;
mod ops;
mod rng;
mod tower;

extern "C" {
    fn detrand_seed(seed: u64);
}

pub fn seed_os_randomness(seed: u64) {
    unsafe { detrand_seed(seed) }
}

fn main() {
    seed_os_randomness(1);
    let t0 = std::time::Instant::now();
    let log = events::EventLog::new();
    let node = node::SimNode::new(log.clone(), 110, false);
    println!("node built in {:?}", t0.elapsed());
    let dir = std::path::PathBuf::from("/dev/shm/teos-sim-smoke");
    let _ = std::fs::remove_dir_all(&dir);
    std::fs::create_dir_all(&dir).unwrap();
    let cfg = ops::TowerCfg { slots: 10, duration: 100, grace: 6, txindex: false, start_height: 110 };
    let uni = node::Universe { seed: 7 };
    tower::run_tower(&dir, &node, &cfg, &log, true, |ctx| {
        println!("booted in {:?}", t0.elapsed());
        let sk = uni.user_sk(0);
        let pk = bitcoin::secp256k1::PublicKey::from_secret_key(&bitcoin::secp256k1::Secp256k1::new(), &sk);
        let r = tower::api_register(&ctx.api, pk.serialize().to_vec());
        println!("register: {:?}", r);
        let d = uni.dispute(0);
        let p = uni.penalty(0, 0, 0);
        let blob = teos_common::cryptography::encrypt(&p, &d.compute_txid()).unwrap();
        let loc = teos_common::appointment::Locator::new(d.compute_txid());
        let app = teos_common::appointment::Appointment::new(loc, blob.clone(), 42);
        let sig = teos_common::cryptography::sign(&app.to_vec(), &sk);
        let r = tower::api_add(&ctx.api, loc.to_vec(), blob, 42, sig);
        println!("add: {:?}", r.map(|r| (r.start_block, r.available_slots)));
        node.lock().roots.insert(uni.fund_outpoint(0));
        node.lock().mine(vec![d.clone()]);
        (ctx.poll)();
        let sig = teos_common::cryptography::sign(format!("get appointment {loc}").as_bytes(), &sk);
        let r = tower::api_get(&ctx.api, loc.to_vec(), sig);
        println!("get: {:?}", r.map(|r| r.status));
        println!("db: {:?}", tower::dump_db(&ctx.db_path).trackers.len());
    });
    for e in log.since(0) { 
        match e { events::Event::BlockEnd{db, height, ..} => println!("BlockEnd {height} {}", db.is_some()), e => println!("{:?}", e) }
    }
    println!("total {:?}", t0.elapsed());
}
