#![recursion_limit = "512"]
mod check;
mod client;
mod client_check;
mod conc;
mod conc_check;
mod events;
mod exec;
mod gen;
mod hooks;
mod http;
mod minimize;
mod model;
mod node;
mod obs;
mod ops;
mod rng;
mod sched;
mod store;
mod txidx;
mod tower;

extern "C" {
    fn detrand_seed(seed: u64);
}

/// Re-seeds the process-wide "OS randomness" (getrandom) stream. Call before each simulation.
pub fn seed_os_randomness(seed: u64) {
    unsafe { detrand_seed(seed) }
}

fn usage() -> ! {
    eprintln!(
        "usage:\n  teos-sim check <Cxx> [--tier quick|thorough] [--runs N] [--secs S] [--jobs J]\n  teos-sim --replay <file>\n  teos-sim selftest determinism [--runs N]\n  teos-sim gen <Cxx> <index>\n  teos-sim one <Cxx> <index>"
    );
    std::process::exit(2)
}

fn main() {
    // Deterministic from the very first HashMap on.
    seed_os_randomness(0);
    let args: Vec<String> = std::env::args().skip(1).collect();
    if args.is_empty() {
        usage();
    }
    if std::env::var("SIM_LOG").is_ok() {
        // debugging aid: the log lines of the code under test on stderr (never set by the checks)
        struct StderrLog;
        impl log::Log for StderrLog {
            fn enabled(&self, _: &log::Metadata) -> bool {
                true
            }
            fn log(&self, r: &log::Record) {
                if r.target().starts_with("teos") || r.target().starts_with("watchtower") {
                    eprintln!("[log {} {}] {}", r.level(), r.target(), r.args());
                }
            }
            fn flush(&self) {}
        }
        static L: StderrLog = StderrLog;
        let _ = log::set_logger(&L);
        log::set_max_level(log::LevelFilter::Debug);
    }
    let code = match args[0].as_str() {
        "check" => check::cmd_check(&args[1..]),
        "worker" => check::cmd_worker(&args[1..]),
        "--replay" | "replay" => check::cmd_replay(&args[1..]),
        "selftest" => check::cmd_selftest(&args[1..]),
        "gen" => check::cmd_gen(&args[1..]),
        "one" => check::cmd_one(&args[1..]),
        "find" => check::cmd_find(&args[1..]),
        id if id.starts_with('C') => check::cmd_check(&args),
        _ => usage(),
    };
    std::process::exit(code);
}
