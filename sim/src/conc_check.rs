//! Scenario generation and oracles for the concurrent engine (C10, C11, C12).

use serde::{Deserialize, Serialize};

use crate::conc::{run_scenario, sequential_orders, ConcResult, Projection, Scenario, StratSpec};
use crate::exec::{first_line, normalise_location};
use crate::ops::{Blob, Op, Sig, TowerCfg, TxRef};
use crate::rng::{derive, Rng};
use crate::sched::Strategy;

#[derive(Clone, Debug)]
pub struct CFound {
    pub property: &'static str,
    pub signature: String,
    pub detail: String,
    pub strat: Option<StratSpec>,
}

#[derive(Serialize, Deserialize, Clone, Debug)]
pub struct ConcReplay {
    pub property: String,
    pub signature: String,
    pub detail: String,
    pub engine: String,
    pub scenario: Scenario,
    pub strategy: Option<StratSpec>,
}

fn add(u: u32, d: u32, v: u32, len: usize) -> Op {
    Op::Add { u, d, blob: Blob::Valid { v, len }, tsd: 42, sig: Sig::Good }
}

/// C10 / C11 scenarios: a prepared state, blocks the tower has not polled yet, then concurrent operations.
pub fn gen_scenario(property: &str, seed: u64) -> Scenario {
    let mut r = Rng::new(derive(seed, "conc", 0));
    let slots = *r.pick(&[2u32, 3, 5, 100]);
    let (duration, grace) = if r.chance(1, 4) { (*r.pick(&[3u32, 4, 6]), *r.pick(&[0u32, 1])) } else { (4320, 6) };
    let cfg = TowerCfg { slots, duration, grace, txindex: r.chance(1, 4), start_height: r.range(101, 108) as u32 };
    let mut prefix = vec![Op::Register { u: 0 }];
    if r.chance(2, 3) {
        prefix.push(Op::Register { u: 1 });
    }
    let mut t0: Vec<Op> = vec![];
    let mut t1: Vec<Op> = vec![];
    let mut t2: Vec<Op> = vec![];
    let template = r.weighted(&[28, 14, 10, 12, 7, 9, 8, 12]);
    match template {
        0 => {
            // appointment arrives while the block with its dispute is being processed
            if r.chance(1, 2) {
                prefix.push(add(1, 1, 0, 0));
            }
            let mut txs = vec![TxRef::Dispute(0)];
            if r.chance(1, 3) {
                txs.push(TxRef::Dispute(1));
            }
            prefix.push(Op::Mine { txs });
            if r.chance(1, 3) {
                prefix.push(Op::Mine { txs: vec![] });
            }
            t0.push(Op::Poll);
            t1.push(add(0, 0, 0, *r.pick(&[0usize, 2049])));
            if r.chance(1, 3) {
                t1.push(Op::Get { u: 0, d: 0, sig: Sig::Good });
            }
            if r.chance(1, 3) {
                t2.push(add(1, 0, 0, 0));
            } else if r.chance(1, 2) {
                // a read of an appointment whose breach is being answered at that moment
                if prefix.iter().any(|o| matches!(o, Op::Add { u: 1, d: 1, .. })) && r.chance(1, 2) {
                    t2.push(Op::Get { u: 1, d: 1, sig: Sig::Good });
                } else {
                    t2.push(Op::Get { u: 0, d: 0, sig: Sig::Good });
                }
            }
        }
        1 => {
            // the same appointment submitted twice at once
            let len = *r.pick(&[0usize, 2049, 4097]);
            if r.chance(1, 2) {
                prefix.push(Op::Mine { txs: vec![] });
                t0.push(Op::Poll);
            }
            t1.push(add(0, 0, 0, len));
            t2.push(add(0, 0, 0, len));
        }
        2 => {
            // registration / renewal against submissions of the same user
            t1.push(Op::Register { u: 0 });
            t2.push(add(0, 0, 0, *r.pick(&[0usize, 2049])));
            if r.chance(1, 2) {
                prefix.push(Op::Mine { txs: vec![] });
                t0.push(Op::Poll);
            }
        }
        3 => {
            // replacement of a stored appointment while its dispute is being processed
            prefix.push(add(0, 0, 0, 0));
            prefix.push(Op::Mine { txs: vec![TxRef::Dispute(0)] });
            t0.push(Op::Poll);
            t1.push(add(0, 0, *r.pick(&[0u32, 1]), *r.pick(&[0usize, 300, 2049])));
        }
        4 => {
            // a tracker completes (refund) while its owner submits / renews
            prefix.push(add(0, 0, 0, *r.pick(&[0usize, 2049])));
            prefix.push(Op::Mine { txs: vec![TxRef::Dispute(0)] });
            prefix.push(Op::Poll);
            prefix.push(Op::Mine { txs: vec![TxRef::Penalty { d: 0, v: 0, len: 0 }] });
            prefix.push(Op::Poll);
            for _ in 0..99 {
                prefix.push(Op::Mine { txs: vec![] });
            }
            prefix.push(Op::Poll);
            prefix.push(Op::Mine { txs: vec![] });
            t0.push(Op::Poll);
            t1.push(if r.chance(1, 2) { add(0, 1, 0, 0) } else { Op::Register { u: 0 } });
            if r.chance(1, 2) {
                t2.push(Op::SubInfo { u: 0, sig: Sig::Good });
            }
        }
        5 => {
            // the block that purges a user while that user acts
            let cfg_d = cfg.duration.min(6);
            let _ = cfg_d;
            prefix.push(add(0, 0, 0, 0));
            let n = if cfg.duration < 100 { cfg.duration + cfg.grace } else { 2 };
            // sometimes the dispute of the late request is already within the six-block window (triggered on arrival)
            let cached = r.chance(1, 2);
            for i in 0..n.saturating_sub(1) {
                if cached && i + 2 == n {
                    prefix.push(Op::Mine { txs: vec![TxRef::Dispute(1)] });
                } else {
                    prefix.push(Op::Mine { txs: vec![] });
                }
            }
            prefix.push(Op::Poll);
            prefix.push(Op::Mine { txs: vec![TxRef::Dispute(0)] });
            t0.push(Op::Poll);
            t1.push(match r.below(4) {
                0 => add(0, 1, 0, 0),
                1 => Op::Get { u: 0, d: 0, sig: Sig::Good },
                2 => Op::SubInfo { u: 0, sig: Sig::Good },
                _ => Op::Register { u: 0 },
            });
        }
        6 => {
            // a reorg being processed while requests arrive
            prefix.push(add(0, 0, 0, 0));
            prefix.push(Op::Mine { txs: vec![TxRef::Dispute(0)] });
            prefix.push(Op::Poll);
            prefix.push(Op::Mine { txs: vec![TxRef::Penalty { d: 0, v: 0, len: 0 }] });
            prefix.push(Op::Poll);
            if r.chance(1, 2) {
                // the reorg stays ABOVE the confirming block: the penalty keeps its confirmation while the window of
                // recent blocks shrinks and refills (a late request in between looks the penalty up in the index)
                let above = r.range(1, 3);
                for _ in 0..above {
                    prefix.push(Op::Mine { txs: vec![] });
                }
                prefix.push(Op::Poll);
                prefix.push(Op::Reorg { depth: r.range(1, above) as u32, branch: vec![] });
            } else {
                prefix.push(Op::Reorg { depth: r.range(1, 3) as u32, branch: vec![] });
            }
            t0.push(Op::Poll);
            t1.push(match r.below(3) {
                0 => add(0, 1, 0, 0),
                1 => Op::Get { u: 0, d: 0, sig: Sig::Good },
                _ => add(1, 0, 0, 0),
            });
        }
        _ => {
            // free mix
            let n_pre = r.below(4);
            for _ in 0..n_pre {
                prefix.push(add(r.below(2) as u32, r.below(3) as u32, 0, *r.pick(&[0usize, 2049])));
            }
            prefix.push(Op::Mine { txs: vec![TxRef::Dispute(r.below(3) as u32)] });
            if r.chance(1, 2) {
                prefix.push(Op::Mine { txs: vec![TxRef::Dispute(r.below(3) as u32)] });
            }
            t0.push(Op::Poll);
            let mut mk = |r: &mut Rng| match r.below(5) {
                0 => Op::Register { u: r.below(2) as u32 },
                1 => Op::Get { u: r.below(2) as u32, d: r.below(3) as u32, sig: Sig::Good },
                2 => Op::SubInfo { u: r.below(2) as u32, sig: Sig::Good },
                _ => add(r.below(2) as u32, r.below(3) as u32, 0, *r.pick(&[0usize, 2049])),
            };
            t1.push(mk(&mut r));
            if r.chance(1, 2) {
                t1.push(mk(&mut r));
            }
            if r.chance(2, 3) {
                t2.push(mk(&mut r));
            }
        }
    }
    if t0.is_empty() {
        // every scenario has a chain thread, even if idle
        t0.push(Op::Poll);
    }
    let mut threads = vec![t0, t1];
    if !t2.is_empty() {
        threads.push(t2);
    }
    Scenario {
        property: property.to_string(),
        seed,
        cfg,
        prefix,
        threads,
        down_at_rpc: None,
        down_at_bs: None,
    }
}

pub fn strategies_for(seed: u64, est_steps: u32, n: usize) -> Vec<(StratSpec, Strategy, u64)> {
    let mut out = vec![];
    for i in 0..n {
        let s = derive(seed, "sched", i as u64);
        match i % 4 {
            0 | 3 => out.push((StratSpec::Random(s), Strategy::Random, s)),
            k => {
                let depth = k as u32 + 1;
                out.push((StratSpec::Pct { depth, seed: s }, Strategy::Pct { depth, est_steps }, s))
            }
        }
    }
    out
}

pub fn strategy_of(spec: &StratSpec, est_steps: u32) -> (Strategy, u64) {
    match spec {
        StratSpec::Random(s) => (Strategy::Random, *s),
        StratSpec::Pct { depth, seed } => (Strategy::Pct { depth: *depth, est_steps }, *seed),
        StratSpec::Replay(t) => (Strategy::Replay(t.clone()), 0),
    }
}

fn abort_sig(r: &ConcResult) -> Option<(String, String)> {
    r.aborts.first().map(|a| {
        let d = format!("panic at {}: {}", normalise_location(&a.location), first_line(&a.message));
        (format!("C11|abort|concurrent|{d}"), d)
    })
}

fn normalise_stuck(s: &str) -> String {
    // thread names are operation kinds; drop duplicates of polls etc. but keep the structure
    s.to_string()
}

pub struct ScenarioOutcome {
    pub found: Vec<CFound>,
    pub runs: u64,
    pub schedules: Vec<Vec<u32>>,
    pub steps: u64,
    pub preemptions: u64,
    pub lock_cycles: u64,
    pub fired: std::collections::BTreeMap<String, u64>,
    pub probes: std::collections::BTreeMap<String, u64>,
}

fn diff_projection(a: &Projection, refs: &[Projection]) -> String {
    // describe the difference to the closest sequential outcome
    let mut best = (usize::MAX, String::new());
    for (i, r) in refs.iter().enumerate() {
        let mut d = vec![];
        if a.replies != r.replies {
            d.push(format!("replies {:?} vs {:?}", a.replies, r.replies));
        }
        if a.users != r.users {
            d.push(format!("users(slots,expiry) {:?} vs {:?}", a.users.iter().map(|u| (u.1, u.2)).collect::<Vec<_>>(), r.users.iter().map(|u| (u.1, u.2)).collect::<Vec<_>>()));
        }
        if a.records != r.records {
            d.push(format!(
                "records(uuid8,blob,tracker) {:?} vs {:?}",
                a.records.iter().map(|x| (&x.0[..8], &x.1[..6], x.3)).collect::<Vec<_>>(),
                r.records.iter().map(|x| (&x.0[..8], &x.1[..6], x.3)).collect::<Vec<_>>()
            ));
        }
        if a.submitted_ok != r.submitted_ok {
            d.push(format!("node got {} txs vs {}", a.submitted_ok.len(), r.submitted_ok.len()));
        }
        if d.len() < best.0 {
            best = (d.len(), format!("closest sequential order #{i}: {}", d.join("; ")));
        }
    }
    best.1
}

/// Names the guarantee of the statement that the outcome breaks (root-cause oriented signature).
fn classify(sc: &Scenario, a: &Projection, refs: &[Projection]) -> String {
    let is_read = |t: usize, i: usize| matches!(sc.threads[t][i], Op::Get { .. } | Op::SubInfo { .. });
    let same_state = |r: &Projection| r.users == a.users && r.records == a.records && r.submitted_ok == a.submitted_ok;
    let same_writes = |r: &Projection| {
        a.replies.iter().enumerate().all(|(t, rs)| {
            rs.iter().enumerate().all(|(i, x)| is_read(t, i) || r.replies.get(t).and_then(|v| v.get(i)) == Some(x))
        })
    };
    if refs.iter().any(|r| same_state(r) && same_writes(r)) {
        // only what a read-only request was told differs: it saw a state no sequential order goes through
        let mut kinds = std::collections::BTreeSet::new();
        for (t, rs) in a.replies.iter().enumerate() {
            for (i, x) in rs.iter().enumerate() {
                if is_read(t, i) && !refs.iter().any(|r| same_state(r) && same_writes(r) && r.replies[t][i] == *x) {
                    kinds.insert(sc.threads[t][i].kind());
                }
            }
        }
        if kinds.is_empty() {
            kinds.insert("combination");
        }
        return format!("torn_read|{}", kinds.into_iter().collect::<Vec<_>>().join("+"));
    }
    // record states
    let state_of = |p: &Projection, uuid: &str| p.records.iter().find(|r| r.0 == uuid).map(|r| if r.3 { 2 } else { 1 }).unwrap_or(0);
    let mut uuids = std::collections::BTreeSet::new();
    for p in refs.iter().chain(std::iter::once(a)) {
        for r in p.records.iter() {
            uuids.insert(r.0.clone());
        }
    }
    for u in uuids.iter() {
        let allowed: std::collections::BTreeSet<i32> = refs.iter().map(|r| state_of(r, u)).collect();
        let got = state_of(a, u);
        if !allowed.contains(&got) {
            return if allowed.iter().all(|s| *s > got) {
                if got == 0 { "appointment_lost".into() } else { "response_lost".into() }
            } else {
                "record_state_unreachable".into()
            };
        }
    }
    // slots
    for (uid, avail, _) in a.users.iter() {
        let vals: Vec<u32> = refs.iter().filter_map(|r| r.users.iter().find(|x| &x.0 == uid).map(|x| x.1)).collect();
        if !vals.is_empty() && !vals.contains(avail) {
            return if vals.iter().all(|v| v > avail) {
                "charged_more_than_any_order".into()
            } else if vals.iter().all(|v| v < avail) {
                "charged_less_than_any_order".into()
            } else {
                "slots_unreachable".into()
            };
        }
    }
    // Same replies and same final records / users as some order, but a penalty that order handed to the node is missing:
    // the request overlapped the block that purged its owner (the records are equal, so the owner is gone in both): the
    // receipt was given, the response was skipped because the insert failed. Same root as the open C02 finding (the
    // gatekeeper's purge does not serialise with the request's critical section).
    if refs.iter().any(|r| {
        same_writes(r) && r.users == a.users && r.records == a.records && a.submitted_ok.is_subset(&r.submitted_ok) && a.submitted_ok != r.submitted_ok
    }) {
        return "receipt_without_response_owner_purged_meanwhile".into();
    }
    if refs.iter().any(same_state) {
        return "write_reply_unreachable".into();
    }
    "state_combination_unreachable".into()
}

/// Which aspects differ from every sequential outcome (for the signature).
#[allow(dead_code)]
fn diff_kind(a: &Projection, refs: &[Projection]) -> String {
    let mut kinds = std::collections::BTreeSet::new();
    let mut best = usize::MAX;
    for r in refs {
        let mut k = vec![];
        if a.replies != r.replies {
            k.push("replies");
        }
        if a.users != r.users {
            k.push("slots");
        }
        if a.records != r.records {
            k.push("records");
        }
        if a.submitted_ok != r.submitted_ok {
            k.push("submissions");
        }
        if k.len() < best {
            best = k.len();
            kinds.clear();
            kinds.insert(k.join("+"));
        }
    }
    kinds.into_iter().next().unwrap_or_default()
}

/// Explores one C10/C11 scenario: sequential reference outcomes, then `n_sched` schedules.
pub fn explore_scenario(sc: &Scenario, n_sched: usize) -> ScenarioOutcome {
    let mut out = ScenarioOutcome {
        found: vec![],
        runs: 0,
        schedules: vec![],
        steps: 0,
        preemptions: 0,
        lock_cycles: 0,
        fired: Default::default(),
        probes: Default::default(),
    };
    let kinds: Vec<String> = sc.threads.iter().map(|t| t.iter().map(|o| o.kind()).collect::<Vec<_>>().join(",")).collect();
    let kinds = kinds.join("|");
    // how many chain events does the poll deliver? (first atomic order tells)
    let first = sequential_orders(sc, 1, 0);
    let n_events = run_scenario(sc, None, Some(&first[0]), 0, false).chain_events;
    out.runs += 1;
    let orders = sequential_orders(sc, 12, n_events);
    if orders.iter().any(|o| o.iter().any(|s| s.at.is_some())) {
        *out.probes.entry("orders_between_chain_events".into()).or_insert(0) += 1;
    }
    let mut refs: Vec<Projection> = vec![];
    for o in orders.iter() {
        let r = run_scenario(sc, None, Some(o), 0, true);
        out.runs += 1;
        for (k, v) in r.fired.iter() {
            *out.fired.entry(k.clone()).or_insert(0) += v;
        }
        if let Some((sig, d)) = abort_sig(&r) {
            out.found.push(CFound {
                property: "C11",
                signature: sig.replace("|concurrent|", "|sequential|"),
                detail: format!("sequential order {o:?}: {d}"),
                strat: None,
            });
            return out;
        }
        if let Err(e) = &r.live {
            out.found.push(CFound {
                property: "C11",
                signature: format!("C11|not_live|sequential|{}", first_line(e)),
                detail: format!("sequential order {o:?}: {e}"),
                strat: None,
            });
            return out;
        }
        if let Some(d) = &r.conf_mismatch {
            out.found.push(CFound {
                property: "C04",
                signature: "C04|confirmed_height|request_between_chain_events".into(),
                detail: format!("sequential order {o:?}: {d}"),
                strat: None,
            });
        }
        if !refs.contains(&r.projection) {
            refs.push(r.projection);
        }
    }
    if refs.len() > 1 {
        *out.probes.entry("order_dependent_scenario".into()).or_insert(0) += 1;
    }
    // a first schedule to size PCT
    let mut est = 60u32;
    let strats = strategies_for(sc.seed, est, n_sched);
    for (i, (spec, _, seed)) in strats.iter().enumerate() {
        let (strategy, _) = strategy_of(spec, est);
        let r = run_scenario(sc, Some(strategy), None, *seed, true);
        out.runs += 1;
        let Some(sr) = r.sched.clone() else { continue };
        if i == 0 {
            est = (sr.steps as u32).max(10);
        }
        out.steps += sr.steps;
        out.preemptions += sr.preemptions;
        if sr.lock_order_cycle {
            out.lock_cycles += 1;
        }
        out.schedules.push(sr.trace.clone());
        let replay = Some(StratSpec::Replay(sr.trace.clone()));
        if let Some(stuck) = &sr.stuck {
            out.found.push(CFound {
                property: "C11",
                signature: format!("C11|{}", normalise_stuck(stuck)),
                detail: format!(
                    "threads [{kinds}] under {spec:?}: {stuck} after {} steps: {}",
                    sr.steps,
                    sr.stuck_detail.clone().unwrap_or_default()
                ),
                strat: replay,
            });
            continue;
        }
        if let Some((sig, d)) = abort_sig(&r) {
            out.found.push(CFound {
                property: "C11",
                signature: sig,
                detail: format!("threads [{kinds}] under {spec:?}: {d}"),
                strat: replay,
            });
            continue;
        }
        if let Err(e) = &r.live {
            out.found.push(CFound {
                property: "C11",
                signature: format!("C11|not_live|concurrent|{}", first_line(e)),
                detail: format!("threads [{kinds}] under {spec:?}: after the concurrent phase the tower is not live: {e}"),
                strat: replay,
            });
            continue;
        }
        if let Some(d) = &r.late_submission {
            let (kind, what) = d.split_once('|').unwrap_or(("?", d.as_str()));
            out.found.push(CFound {
                property: "C02",
                signature: if kind == "RESP" { "C02|responded_before_node_given_penalty|concurrent".to_string() } else { format!("C02|submission_after_owner_removed:{kind}|concurrent") },
                detail: format!("threads [{kinds}] under {spec:?}: {what}"),
                strat: replay.clone(),
            });
        }
        if let Some(d) = &r.conf_mismatch {
            out.found.push(CFound {
                property: "C04",
                signature: "C04|confirmed_height|concurrent".into(),
                detail: format!("threads [{kinds}] under {spec:?}: {d}"),
                strat: replay.clone(),
            });
        }
        if let Some(d) = &r.stamp_mismatch {
            out.found.push(CFound {
                property: "C08",
                signature: "C08|start_block_not_height_at_acceptance|concurrent".into(),
                detail: format!("threads [{kinds}] under {spec:?}: {d}"),
                strat: replay.clone(),
            });
        }
        if !refs.contains(&r.projection) {
            if std::env::var("SIM_DEBUG").is_ok() {
                eprintln!("[conc] schedule {:?}", sr.trace);
                eprintln!("[conc] outcome  {}", serde_json::to_string(&r.projection).unwrap());
                for (i, rf) in refs.iter().enumerate() {
                    eprintln!("[conc] ref #{i}   {}", serde_json::to_string(rf).unwrap());
                }
                for (i, o) in orders.iter().enumerate() {
                    eprintln!("[conc] order #{i} {:?}", o);
                }
            }
            *out.probes.entry("non_serialisable_outcome".into()).or_insert(0) += 1;
            out.found.push(CFound {
                property: "C10",
                signature: format!("C10|{}", classify(sc, &r.projection, &refs)),
                detail: format!(
                    "threads [{kinds}] under {spec:?}: outcome equals none of the {} sequential outcomes; {}",
                    refs.len(),
                    diff_projection(&r.projection, &refs)
                ),
                strat: replay,
            });
        }
    }
    out
}

/// Re-checks one scenario under one strategy (replay).
pub fn recheck(sc: &Scenario, spec: &Option<StratSpec>, property: &str, signature: &str) -> Option<String> {
    let o = match spec {
        None => explore_scenario(sc, 0),
        Some(spec) => {
            // rebuild the references, then run exactly this schedule
            let mut o = explore_scenario(sc, 0);
            if o.found.is_empty() {
                let first = sequential_orders(sc, 1, 0);
                let n_events = run_scenario(sc, None, Some(&first[0]), 0, false).chain_events;
                let orders = sequential_orders(sc, 12, n_events);
                let mut refs = vec![];
                for ord in orders.iter() {
                    let r = run_scenario(sc, None, Some(ord), 0, true);
                    if !refs.contains(&r.projection) {
                        refs.push(r.projection);
                    }
                }
                let (strategy, seed) = strategy_of(spec, 60);
                let r = run_scenario(sc, Some(strategy), None, seed, true);
                let kinds: Vec<String> = sc.threads.iter().map(|t| t.iter().map(|o| o.kind()).collect::<Vec<_>>().join(",")).collect();
                let kinds = kinds.join("|");
                if let Some(sr) = &r.sched {
                    if let Some(stuck) = &sr.stuck {
                        o.found.push(CFound { property: "C11", signature: format!("C11|{}", normalise_stuck(stuck)), detail: stuck.clone(), strat: None });
                    } else if let Some((sig, d)) = abort_sig(&r) {
                        o.found.push(CFound { property: "C11", signature: sig, detail: d, strat: None });
                    } else if let Err(e) = &r.live {
                        o.found.push(CFound { property: "C11", signature: format!("C11|not_live|concurrent|{}", first_line(e)), detail: e.clone(), strat: None });
                    } else if property == "C02" {
                        if let Some(d) = &r.late_submission {
                            let (kind, what) = d.split_once('|').unwrap_or(("?", d.as_str()));
                            o.found.push(CFound {
                                property: "C02",
                                signature: if kind == "RESP" { "C02|responded_before_node_given_penalty|concurrent".to_string() } else { format!("C02|submission_after_owner_removed:{kind}|concurrent") },
                                detail: what.to_string(),
                                strat: None,
                            });
                        }
                    } else if property == "C04" {
                        if let Some(d) = &r.conf_mismatch {
                            o.found.push(CFound {
                                property: "C04",
                                signature: "C04|confirmed_height|concurrent".into(),
                                detail: d.clone(),
                                strat: None,
                            });
                        }
                    } else if property == "C08" {
                        if let Some(d) = &r.stamp_mismatch {
                            o.found.push(CFound {
                                property: "C08",
                                signature: "C08|start_block_not_height_at_acceptance|concurrent".into(),
                                detail: d.clone(),
                                strat: None,
                            });
                        }
                    } else if !refs.contains(&r.projection) {
                        if std::env::var("SIM_DEBUG").is_ok() {
                            eprintln!("[conc] outcome  {}", serde_json::to_string(&r.projection).unwrap());
                            for (i, rf) in refs.iter().enumerate() {
                                eprintln!("[conc] ref #{i}   {}", serde_json::to_string(rf).unwrap());
                            }
                        }
                        o.found.push(CFound {
                            property: "C10",
                            signature: format!("C10|{}", classify(sc, &r.projection, &refs)),
                            detail: diff_projection(&r.projection, &refs),
                            strat: None,
                        });
                    }
                }
            }
            o
        }
    };
    o.found
        .iter()
        .find(|f| f.property == property && f.signature == signature)
        .map(|f| f.detail.clone())
}

/// Shrinks a failing scenario (prefix and thread operations) while some schedule of the same set still shows the same
/// signature.
pub fn minimise_scenario(sc: &Scenario, property: &str, signature: &str, n_sched: usize, budget: usize) -> (Scenario, Option<StratSpec>) {
    let mut best = sc.clone();
    let mut used = 0;
    let check = |c: &Scenario| -> Option<Option<StratSpec>> {
        let o = explore_scenario(c, n_sched);
        o.found
            .iter()
            .find(|f| f.property == property && f.signature == signature)
            .map(|f| f.strat.clone())
    };
    let mut best_strat = check(&best).unwrap_or(None);
    let mut i = 0;
    while i < best.prefix.len() && used < budget {
        let mut c = best.clone();
        c.prefix.remove(i);
        used += 1;
        if let Some(s) = check(&c) {
            best = c;
            best_strat = s;
        } else {
            i += 1;
        }
    }
    for t in 0..best.threads.len() {
        let mut i = 0;
        while i < best.threads[t].len() && best.threads[t].len() > 1 && used < budget {
            let mut c = best.clone();
            c.threads[t].remove(i);
            used += 1;
            // signatures carry the operation kinds, so removing operations usually changes them; try anyway
            if let Some(s) = check(&c) {
                best = c;
                best_strat = s;
            } else {
                i += 1;
            }
        }
    }
    (best, best_strat)
}


// ---------------------------------------------------------------------------------------------
// C12: node outages

/// Scenario for C12: appointments and (sometimes) trackers are in place, blocks with disputes are waiting to be polled;
/// the chain thread polls repeatedly, an API thread submits / reads, the environment thread brings the node back some
/// time after it went down. The outage itself is placed by the caller (at the n-th RPC or block-source call).
pub fn gen_outage_scenario(property: &str, seed: u64) -> Scenario {
    let mut r = Rng::new(derive(seed, "outage", 0));
    let cfg = TowerCfg { slots: 20, duration: 4320, grace: 6, txindex: r.chance(1, 4), start_height: r.range(101, 108) as u32 };
    let mut prefix = vec![Op::Register { u: 0 }, Op::Register { u: 1 }];
    prefix.push(add(0, 0, 0, 0));
    if r.chance(1, 2) {
        prefix.push(add(1, 1, 0, 0));
    }
    if r.chance(1, 3) {
        // an old unconfirmed tracker so that the rebroadcast path runs during the outage
        prefix.push(add(0, 2, 0, 0));
        prefix.push(Op::Mine { txs: vec![TxRef::Dispute(2)] });
        prefix.push(Op::Poll);
        for _ in 0..5 {
            prefix.push(Op::Mine { txs: vec![] });
        }
        prefix.push(Op::Poll);
    }
    if r.chance(1, 3) {
        // a late appointment whose dispute is already in the cache (request path reaches the node)
        prefix.push(Op::Mine { txs: vec![TxRef::Dispute(3)] });
        prefix.push(Op::Poll);
    }
    // blocks waiting to be polled
    let mut txs = vec![TxRef::Dispute(0)];
    if r.chance(1, 2) {
        txs.push(TxRef::Dispute(1));
    }
    prefix.push(Op::Mine { txs });
    let extra = r.below(3);
    for _ in 0..extra {
        prefix.push(Op::Mine { txs: vec![] });
    }
    let n_polls = r.range(3, 6) as usize;
    let mut t0: Vec<Op> = (0..n_polls).map(|_| Op::Poll).collect();
    // once the node is back, two more polls: the tower must resume by itself within them
    t0.push(Op::WaitNodeUp { max: 600 });
    if r.chance(1, 4) {
        // the node comes back on a sibling of the tower's tip with the same work (it lost its last block): every poll
        // succeeds, none brings a better tip -- the tower must still notice that the node is back
        t0.push(Op::WorseTip);
        t0.push(Op::Poll);
        t0.push(Op::WorseTip);
        t0.push(Op::Poll);
    } else {
        t0.push(Op::Poll);
        t0.push(Op::Poll);
    }
    let mut t1 = vec![];
    for _ in 0..r.range(1, 3) {
        t1.push(match r.below(5) {
            0 => add(1, 3, 0, 0),
            1 => add(0, 4, 0, 0),
            2 => Op::Get { u: 0, d: 0, sig: Sig::Good },
            3 => Op::Register { u: 1 },
            _ => add(1, 0, 0, 0),
        });
    }
    let back_to_back = r.chance(1, 4);
    if back_to_back {
        // Two outages back to back, the tower polling through both: the chain thread's polls are spread out, the request
        // thread keeps asking, and the environment leaves the second outage standing for a while. (What recovers the flag
        // between the two may be the carrier's own probe, not a poll.)
        t0.clear();
        for _ in 0..r.range(2, 3) {
            t0.push(Op::Poll);
        }
        for _ in 0..r.range(2, 4) {
            t0.push(Op::Yield { n: r.range(5, 60) as u32 });
            t0.push(Op::Poll);
        }
        t0.push(Op::WaitNodeUp { max: 600 });
        t0.push(Op::Poll);
        t0.push(Op::Poll);
        for _ in 0..r.range(2, 4) {
            if r.chance(1, 2) {
                t1.push(Op::Yield { n: r.range(3, 40) as u32 });
            }
            t1.push(match r.below(4) {
                0 => Op::Get { u: 0, d: 0, sig: Sig::Good },
                1 => Op::SubInfo { u: 1, sig: Sig::Good },
                2 => add(1, 4, 0, 0),
                _ => Op::Register { u: 0 },
            });
        }
    }
    let t2 = if back_to_back && r.chance(1, 2) {
        vec![
            Op::WaitNodeDown { max: 400 },
            Op::Yield { n: r.range(5, 60) as u32 },
            Op::NodeUpThenDownAfter { rpcs: r.range(1, 4) as u32 },
            Op::WaitNodeDown { max: 400 },
            Op::Yield { n: r.range(20, 200) as u32 },
            Op::NodeUp,
        ]
    } else if back_to_back {
        // the second outage starts between two calls (nobody is talking to the node when it goes away): only a poll,
        // or the next submission, can notice it
        vec![
            Op::WaitNodeDown { max: 400 },
            Op::Yield { n: r.range(5, 60) as u32 },
            Op::NodeUpThenDownAtBs { calls: r.range(1, 3) as u32 },
            Op::WaitNodeDown { max: 400 },
            Op::Yield { n: r.range(20, 200) as u32 },
            Op::NodeUp,
        ]
    } else if r.chance(1, 3) {
        // the node comes back only for a moment: the second outage starts at one of the first calls after the recovery
        // (the carrier's own probe, or the call it retries)
        vec![
            Op::WaitNodeDown { max: 400 },
            Op::NodeUpThenDownAfter { rpcs: r.range(1, 3) as u32 },
            Op::WaitNodeDown { max: 400 },
            Op::NodeUp,
        ]
    } else if r.chance(1, 4) {
        // the node comes back behind the tower's tip (it lost its last blocks and has not caught up yet): it answers
        // every call, its block count is lower than what the tower has seen, and the tower must resume all the same
        vec![Op::WaitNodeDown { max: 400 }, Op::NodeUpBehind { k: r.range(1, 3) as u32 }]
    } else {
        vec![Op::WaitNodeDown { max: 400 }, Op::NodeUp]
    };
    Scenario {
        property: property.to_string(),
        seed,
        cfg,
        prefix,
        threads: vec![t0, t1, t2],
        down_at_rpc: None,
        down_at_bs: None,
    }
}

fn first_kind(name: &str) -> &str {
    name.split(',').next().unwrap_or(name)
}

/// Signature of a stuck run: who waits for what (thread identified by its first operation kind).
fn stuck_signature(detail: &str) -> String {
    let mut parts: Vec<String> = detail
        .split('+')
        .filter(|p| !p.is_empty())
        .map(|p| {
            let (name, want) = p.split_once(':').unwrap_or((p, ""));
            // drop the held_by(...) part
            let want = want.split("held_by").next().unwrap_or(want);
            format!("{}:{}", first_kind(name), want)
        })
        .collect();
    parts.sort();
    parts.dedup();
    parts.join("+")
}

/// Explores one outage scenario: dry run (numbers the node calls), then an outage starting at each (sampled / every)
/// call, each under a couple of schedules.
pub fn explore_outage(sc: &Scenario, thorough: bool) -> ScenarioOutcome {
    let mut out = ScenarioOutcome {
        found: vec![],
        runs: 0,
        schedules: vec![],
        steps: 0,
        preemptions: 0,
        lock_cycles: 0,
        fired: Default::default(),
        probes: Default::default(),
    };
    // dry run without outage under a fixed priority order
    let dry = run_scenario(sc, Some(Strategy::Order(vec![0, 1, 2])), None, 1, true);
    out.runs += 1;
    let n_rpc = dry.rpcs_in_phase;
    let n_bs = dry.bs_in_phase;
    let est = dry.sched.as_ref().map(|s| s.steps as u32).unwrap_or(60).max(10);
    let mut r = Rng::new(derive(sc.seed, "outage-points", 0));
    let mut points: Vec<(bool, u64)> = vec![];
    if thorough {
        points.extend((1..=n_rpc).map(|n| (true, n)));
        points.extend((1..=n_bs).map(|n| (false, n)));
    } else {
        for _ in 0..4 {
            if n_rpc > 0 {
                points.push((true, r.range(1, n_rpc)));
            }
        }
        for _ in 0..3 {
            if n_bs > 0 {
                points.push((false, r.range(1, n_bs)));
            }
        }
        points.sort();
        points.dedup();
    }
    let n_sched = if thorough { 3 } else { 2 };
    for (is_rpc, n) in points {
        let mut sc2 = sc.clone();
        if is_rpc {
            sc2.down_at_rpc = Some(n);
        } else {
            sc2.down_at_bs = Some(n);
        }
        for (spec, _, seed) in strategies_for(derive(sc.seed, "outage-sched", n * 2 + is_rpc as u64), est, n_sched) {
            let (strategy, _) = strategy_of(&spec, est);
            let res = run_scenario(&sc2, Some(strategy), None, seed, true);
            out.runs += 1;
            for (k, v) in res.fired.iter() {
                *out.fired.entry(k.clone()).or_insert(0) += v;
            }
            let Some(sr) = res.sched.clone() else { continue };
            out.steps += sr.steps;
            out.preemptions += sr.preemptions;
            out.schedules.push(sr.trace.clone());
            let outage_fired = res.fired.keys().any(|k| k.starts_with("F1_outage"));
            if outage_fired {
                *out.probes.entry(if is_rpc { "outage_started_at_rpc" } else { "outage_started_at_block_source_call" }.into()).or_insert(0) += 1;
            }
            let place = if is_rpc { "rpc" } else { "block source call" };
            let replay = Some(StratSpec::Replay(sr.trace.clone()));
            let mut push = |sig: String, detail: String| {
                out.found.push(CFound {
                    property: "C12",
                    signature: sig,
                    detail: format!("outage from {place} #{n} under {spec:?}: {detail}"),
                    strat: replay.clone(),
                });
            };
            if let Some(stuck) = &sr.stuck {
                if res.node_down_when_stuck {
                    *out.probes.entry("inconclusive_node_still_down".into()).or_insert(0) += 1;
                    continue;
                }
                let d = sr.stuck_detail.clone().unwrap_or_default();
                *out.probes.entry("stuck_after_node_came_back".into()).or_insert(0) += 1;
                push(
                    format!("C12|no_recovery|{}", stuck_signature(&d)),
                    format!("the node is reachable again but the tower never resumes ({stuck}): {d}"),
                );
                continue;
            }
            if let Some(a) = res.aborts.first() {
                push(
                    format!("C12|abort|panic at {}: {}", normalise_location(&a.location), first_line(&a.message)),
                    format!("panic at {}: {}", normalise_location(&a.location), first_line(&a.message)),
                );
                continue;
            }
            if !res.unavailable_ok {
                push("C12|not_unavailable".into(), "node flagged unreachable but the public API did not answer 'service unavailable'".into());
                continue;
            }
            if !res.missing_penalties.is_empty() {
                push("C12|penalty_dropped".into(), res.missing_penalties.join("; "));
                continue;
            }
            // every block mined was delivered exactly once, in order, and the tower ends at the node's tip
            let hs: Vec<u32> = res.blocks_seen.iter().map(|b| b.1).collect();
            let contiguous = hs.windows(2).all(|w| w[1] == w[0] + 1);
            if !contiguous || hs.last().cloned().unwrap_or(res.node_tip_height) != res.node_tip_height {
                push(
                    "C12|blocks_not_processed".into(),
                    format!("blocks delivered to the listeners: {hs:?}, node tip {}", res.node_tip_height),
                );
                continue;
            }
            if let Err(e) = &res.live {
                push(format!("C12|not_live|{}", first_line(e)), e.clone());
            }
        }
    }
    out
}

pub fn recheck_outage(sc: &Scenario, spec: &Option<StratSpec>, signature: &str) -> Option<String> {
    let mut spec = spec.clone()?;
    if let Ok(v) = std::env::var("SIM_STRAT") {
        // debugging aid: "pct:<depth>:<seed>:<est>" or "random:<seed>" instead of the recorded schedule
        let parts: Vec<&str> = v.split(':').collect();
        if parts[0] == "pct" {
            spec = StratSpec::Pct { depth: parts[1].parse().unwrap(), seed: parts[2].parse().unwrap() };
        } else if parts[0] == "random" {
            spec = StratSpec::Random(parts[1].parse().unwrap());
        }
    }
    let est: u32 = std::env::var("SIM_EST").ok().and_then(|s| s.parse().ok()).unwrap_or(60);
    let (strategy, seed) = strategy_of(&spec, est);
    let res = run_scenario(sc, Some(strategy), None, seed, true);
    let sr = res.sched.clone()?;
    if std::env::var("SIM_DEBUG").is_ok() {
        eprintln!("[conc] trace ({} steps): {:?}", sr.steps, sr.trace);
        eprintln!("[conc] fired {:?} missing {:?} live {:?} unavailable_ok {}", res.fired, res.missing_penalties, res.live, res.unavailable_ok);
        for r in res.rpc_log.iter() {
            eprintln!("[conc] rpc {:?}", r);
        }
    }
    let mut sigs: Vec<(String, String)> = vec![];
    if let Some(stuck) = &sr.stuck {
        if !res.node_down_when_stuck {
            let d = sr.stuck_detail.clone().unwrap_or_default();
            sigs.push((format!("C12|no_recovery|{}", stuck_signature(&d)), format!("{stuck}: {d}")));
        }
    } else if let Some(a) = res.aborts.first() {
        let d = format!("panic at {}: {}", normalise_location(&a.location), first_line(&a.message));
        sigs.push((format!("C12|abort|{d}"), d));
    } else if !res.unavailable_ok {
        sigs.push(("C12|not_unavailable".into(), "API did not answer unavailable".into()));
    } else if !res.missing_penalties.is_empty() {
        sigs.push(("C12|penalty_dropped".into(), res.missing_penalties.join("; ")));
    } else {
        let hs: Vec<u32> = res.blocks_seen.iter().map(|b| b.1).collect();
        let contiguous = hs.windows(2).all(|w| w[1] == w[0] + 1);
        if !contiguous || hs.last().cloned().unwrap_or(res.node_tip_height) != res.node_tip_height {
            sigs.push(("C12|blocks_not_processed".into(), format!("{hs:?} vs tip {}", res.node_tip_height)));
        } else if let Err(e) = &res.live {
            sigs.push((format!("C12|not_live|{}", first_line(e)), e.clone()));
        }
    }
    sigs.into_iter().find(|s| s.0 == signature).map(|s| s.1)
}
