//! Scenario generation and oracles for the concurrent engine (C10, C11, C12).

use serde::{Deserialize, Serialize};

use crate::conc::{run_scenario, sequential_orders, ConcResult, Projection, Scenario, StratSpec};
use crate::exec::{first_line, normalise_location};
use crate::ops::{Blob, Op, Sig, TowerCfg, TxRef};
use crate::rng::{derive, Rng};
use crate::sched::Strategy;

#[derive(Clone, Debug)]
pub struct CFound {
    pub property: &'static str,
    pub signature: String,
    pub detail: String,
    pub strat: Option<StratSpec>,
}

#[derive(Serialize, Deserialize, Clone, Debug)]
pub struct ConcReplay {
    pub property: String,
    pub signature: String,
    pub detail: String,
    pub engine: String,
    pub scenario: Scenario,
    pub strategy: Option<StratSpec>,
}

fn add(u: u32, d: u32, v: u32, len: usize) -> Op {
    Op::Add { u, d, blob: Blob::Valid { v, len }, tsd: 42, sig: Sig::Good }
}

/// C10 / C11 scenarios: a prepared state, blocks the tower has not polled yet, then concurrent operations.
pub fn gen_scenario(property: &str, seed: u64) -> Scenario {
    let mut r = Rng::new(derive(seed, "conc", 0));
    let slots = *r.pick(&[2u32, 3, 5, 100]);
    let (duration, grace) = if r.chance(1, 4) { (*r.pick(&[3u32, 4, 6]), *r.pick(&[0u32, 1])) } else { (4320, 6) };
    let cfg = TowerCfg { slots, duration, grace, txindex: r.chance(1, 4), start_height: r.range(101, 108) as u32 };
    let mut prefix = vec![Op::Register { u: 0 }];
    if r.chance(2, 3) {
        prefix.push(Op::Register { u: 1 });
    }
    let mut t0: Vec<Op> = vec![];
    let mut t1: Vec<Op> = vec![];
    let mut t2: Vec<Op> = vec![];
    let template = r.weighted(&[28, 14, 10, 12, 7, 9, 8, 12]);
    match template {
        0 => {
            // appointment arrives while the block with its dispute is being processed
            if r.chance(1, 2) {
                prefix.push(add(1, 1, 0, 0));
            }
            let mut txs = vec![TxRef::Dispute(0)];
            if r.chance(1, 3) {
                txs.push(TxRef::Dispute(1));
            }
            prefix.push(Op::Mine { txs });
            if r.chance(1, 3) {
                prefix.push(Op::Mine { txs: vec![] });
            }
            t0.push(Op::Poll);
            t1.push(add(0, 0, 0, *r.pick(&[0usize, 2049])));
            if r.chance(1, 3) {
                t1.push(Op::Get { u: 0, d: 0, sig: Sig::Good });
            }
            if r.chance(1, 3) {
                t2.push(add(1, 0, 0, 0));
            }
        }
        1 => {
            // the same appointment submitted twice at once
            let len = *r.pick(&[0usize, 2049, 4097]);
            if r.chance(1, 2) {
                prefix.push(Op::Mine { txs: vec![] });
                t0.push(Op::Poll);
            }
            t1.push(add(0, 0, 0, len));
            t2.push(add(0, 0, 0, len));
        }
        2 => {
            // registration / renewal against submissions of the same user
            t1.push(Op::Register { u: 0 });
            t2.push(add(0, 0, 0, *r.pick(&[0usize, 2049])));
            if r.chance(1, 2) {
                prefix.push(Op::Mine { txs: vec![] });
                t0.push(Op::Poll);
            }
        }
        3 => {
            // replacement of a stored appointment while its dispute is being processed
            prefix.push(add(0, 0, 0, 0));
            prefix.push(Op::Mine { txs: vec![TxRef::Dispute(0)] });
            t0.push(Op::Poll);
            t1.push(add(0, 0, *r.pick(&[0u32, 1]), *r.pick(&[0usize, 300, 2049])));
        }
        4 => {
            // a tracker completes (refund) while its owner submits / renews
            prefix.push(add(0, 0, 0, *r.pick(&[0usize, 2049])));
            prefix.push(Op::Mine { txs: vec![TxRef::Dispute(0)] });
            prefix.push(Op::Poll);
            prefix.push(Op::Mine { txs: vec![TxRef::Penalty { d: 0, v: 0, len: 0 }] });
            prefix.push(Op::Poll);
            for _ in 0..99 {
                prefix.push(Op::Mine { txs: vec![] });
            }
            prefix.push(Op::Poll);
            prefix.push(Op::Mine { txs: vec![] });
            t0.push(Op::Poll);
            t1.push(if r.chance(1, 2) { add(0, 1, 0, 0) } else { Op::Register { u: 0 } });
            if r.chance(1, 2) {
                t2.push(Op::SubInfo { u: 0, sig: Sig::Good });
            }
        }
        5 => {
            // the block that purges a user while that user acts
            let cfg_d = cfg.duration.min(6);
            let _ = cfg_d;
            prefix.push(add(0, 0, 0, 0));
            let n = if cfg.duration < 100 { cfg.duration + cfg.grace } else { 2 };
            for _ in 0..n.saturating_sub(1) {
                prefix.push(Op::Mine { txs: vec![] });
            }
            prefix.push(Op::Poll);
            prefix.push(Op::Mine { txs: vec![TxRef::Dispute(0)] });
            t0.push(Op::Poll);
            t1.push(match r.below(4) {
                0 => add(0, 1, 0, 0),
                1 => Op::Get { u: 0, d: 0, sig: Sig::Good },
                2 => Op::SubInfo { u: 0, sig: Sig::Good },
                _ => Op::Register { u: 0 },
            });
        }
        6 => {
            // a reorg being processed while requests arrive
            prefix.push(add(0, 0, 0, 0));
            prefix.push(Op::Mine { txs: vec![TxRef::Dispute(0)] });
            prefix.push(Op::Poll);
            prefix.push(Op::Mine { txs: vec![TxRef::Penalty { d: 0, v: 0, len: 0 }] });
            prefix.push(Op::Poll);
            prefix.push(Op::Reorg { depth: r.range(1, 3) as u32, branch: vec![] });
            t0.push(Op::Poll);
            t1.push(match r.below(3) {
                0 => add(0, 1, 0, 0),
                1 => Op::Get { u: 0, d: 0, sig: Sig::Good },
                _ => add(1, 0, 0, 0),
            });
        }
        _ => {
            // free mix
            let n_pre = r.below(4);
            for _ in 0..n_pre {
                prefix.push(add(r.below(2) as u32, r.below(3) as u32, 0, *r.pick(&[0usize, 2049])));
            }
            prefix.push(Op::Mine { txs: vec![TxRef::Dispute(r.below(3) as u32)] });
            if r.chance(1, 2) {
                prefix.push(Op::Mine { txs: vec![TxRef::Dispute(r.below(3) as u32)] });
            }
            t0.push(Op::Poll);
            let mut mk = |r: &mut Rng| match r.below(5) {
                0 => Op::Register { u: r.below(2) as u32 },
                1 => Op::Get { u: r.below(2) as u32, d: r.below(3) as u32, sig: Sig::Good },
                2 => Op::SubInfo { u: r.below(2) as u32, sig: Sig::Good },
                _ => add(r.below(2) as u32, r.below(3) as u32, 0, *r.pick(&[0usize, 2049])),
            };
            t1.push(mk(&mut r));
            if r.chance(1, 2) {
                t1.push(mk(&mut r));
            }
            if r.chance(2, 3) {
                t2.push(mk(&mut r));
            }
        }
    }
    if t0.is_empty() {
        // every scenario has a chain thread, even if idle
        t0.push(Op::Poll);
    }
    let mut threads = vec![t0, t1];
    if !t2.is_empty() {
        threads.push(t2);
    }
    Scenario {
        property: property.to_string(),
        seed,
        cfg,
        prefix,
        threads,
        down_at_rpc: None,
        down_at_bs: None,
    }
}

pub fn strategies_for(seed: u64, est_steps: u32, n: usize) -> Vec<(StratSpec, Strategy, u64)> {
    let mut out = vec![];
    for i in 0..n {
        let s = derive(seed, "sched", i as u64);
        match i % 4 {
            0 | 3 => out.push((StratSpec::Random(s), Strategy::Random, s)),
            k => {
                let depth = k as u32 + 1;
                out.push((StratSpec::Pct { depth, seed: s }, Strategy::Pct { depth, est_steps }, s))
            }
        }
    }
    out
}

pub fn strategy_of(spec: &StratSpec, est_steps: u32) -> (Strategy, u64) {
    match spec {
        StratSpec::Random(s) => (Strategy::Random, *s),
        StratSpec::Pct { depth, seed } => (Strategy::Pct { depth: *depth, est_steps }, *seed),
        StratSpec::Replay(t) => (Strategy::Replay(t.clone()), 0),
    }
}

fn abort_sig(r: &ConcResult) -> Option<(String, String)> {
    r.aborts.first().map(|a| {
        let d = format!("panic at {}: {}", normalise_location(&a.location), first_line(&a.message));
        (format!("C11|abort|concurrent|{d}"), d)
    })
}

fn normalise_stuck(s: &str) -> String {
    // thread names are operation kinds; drop duplicates of polls etc. but keep the structure
    s.to_string()
}

pub struct ScenarioOutcome {
    pub found: Vec<CFound>,
    pub runs: u64,
    pub schedules: Vec<Vec<u32>>,
    pub steps: u64,
    pub preemptions: u64,
    pub lock_cycles: u64,
    pub fired: std::collections::BTreeMap<String, u64>,
    pub probes: std::collections::BTreeMap<String, u64>,
}

fn diff_projection(a: &Projection, refs: &[Projection]) -> String {
    // describe the difference to the closest sequential outcome
    let mut best = (usize::MAX, String::new());
    for (i, r) in refs.iter().enumerate() {
        let mut d = vec![];
        if a.replies != r.replies {
            d.push(format!("replies {:?} vs {:?}", a.replies, r.replies));
        }
        if a.users != r.users {
            d.push(format!("users(slots,expiry) {:?} vs {:?}", a.users.iter().map(|u| (u.1, u.2)).collect::<Vec<_>>(), r.users.iter().map(|u| (u.1, u.2)).collect::<Vec<_>>()));
        }
        if a.records != r.records {
            d.push(format!(
                "records(uuid8,blob,tracker) {:?} vs {:?}",
                a.records.iter().map(|x| (&x.0[..8], &x.1[..6], x.3)).collect::<Vec<_>>(),
                r.records.iter().map(|x| (&x.0[..8], &x.1[..6], x.3)).collect::<Vec<_>>()
            ));
        }
        if a.submitted_ok != r.submitted_ok {
            d.push(format!("node got {} txs vs {}", a.submitted_ok.len(), r.submitted_ok.len()));
        }
        if d.len() < best.0 {
            best = (d.len(), format!("closest sequential order #{i}: {}", d.join("; ")));
        }
    }
    best.1
}

/// Names the guarantee of the statement that the outcome breaks (root-cause oriented signature).
fn classify(sc: &Scenario, a: &Projection, refs: &[Projection]) -> String {
    let is_read = |t: usize, i: usize| matches!(sc.threads[t][i], Op::Get { .. } | Op::SubInfo { .. });
    let same_state = |r: &Projection| r.users == a.users && r.records == a.records && r.submitted_ok == a.submitted_ok;
    let same_writes = |r: &Projection| {
        a.replies.iter().enumerate().all(|(t, rs)| {
            rs.iter().enumerate().all(|(i, x)| is_read(t, i) || r.replies.get(t).and_then(|v| v.get(i)) == Some(x))
        })
    };
    if refs.iter().any(|r| same_state(r) && same_writes(r)) {
        // only what a read-only request was told differs: it saw a state no sequential order goes through
        let mut kinds = std::collections::BTreeSet::new();
        for (t, rs) in a.replies.iter().enumerate() {
            for (i, x) in rs.iter().enumerate() {
                if is_read(t, i) && !refs.iter().any(|r| same_state(r) && same_writes(r) && r.replies[t][i] == *x) {
                    kinds.insert(sc.threads[t][i].kind());
                }
            }
        }
        if kinds.is_empty() {
            kinds.insert("combination");
        }
        return format!("torn_read|{}", kinds.into_iter().collect::<Vec<_>>().join("+"));
    }
    // record states
    let state_of = |p: &Projection, uuid: &str| p.records.iter().find(|r| r.0 == uuid).map(|r| if r.3 { 2 } else { 1 }).unwrap_or(0);
    let mut uuids = std::collections::BTreeSet::new();
    for p in refs.iter().chain(std::iter::once(a)) {
        for r in p.records.iter() {
            uuids.insert(r.0.clone());
        }
    }
    for u in uuids.iter() {
        let allowed: std::collections::BTreeSet<i32> = refs.iter().map(|r| state_of(r, u)).collect();
        let got = state_of(a, u);
        if !allowed.contains(&got) {
            return if allowed.iter().all(|s| *s > got) {
                if got == 0 { "appointment_lost".into() } else { "response_lost".into() }
            } else {
                "record_state_unreachable".into()
            };
        }
    }
    // slots
    for (uid, avail, _) in a.users.iter() {
        let vals: Vec<u32> = refs.iter().filter_map(|r| r.users.iter().find(|x| &x.0 == uid).map(|x| x.1)).collect();
        if !vals.is_empty() && !vals.contains(avail) {
            return if vals.iter().all(|v| v > avail) {
                "charged_more_than_any_order".into()
            } else if vals.iter().all(|v| v < avail) {
                "charged_less_than_any_order".into()
            } else {
                "slots_unreachable".into()
            };
        }
    }
    if refs.iter().any(same_state) {
        return "write_reply_unreachable".into();
    }
    "state_combination_unreachable".into()
}

/// Which aspects differ from every sequential outcome (for the signature).
#[allow(dead_code)]
fn diff_kind(a: &Projection, refs: &[Projection]) -> String {
    let mut kinds = std::collections::BTreeSet::new();
    let mut best = usize::MAX;
    for r in refs {
        let mut k = vec![];
        if a.replies != r.replies {
            k.push("replies");
        }
        if a.users != r.users {
            k.push("slots");
        }
        if a.records != r.records {
            k.push("records");
        }
        if a.submitted_ok != r.submitted_ok {
            k.push("submissions");
        }
        if k.len() < best {
            best = k.len();
            kinds.clear();
            kinds.insert(k.join("+"));
        }
    }
    kinds.into_iter().next().unwrap_or_default()
}

/// Explores one C10/C11 scenario: sequential reference outcomes, then `n_sched` schedules.
pub fn explore_scenario(sc: &Scenario, n_sched: usize) -> ScenarioOutcome {
    let mut out = ScenarioOutcome {
        found: vec![],
        runs: 0,
        schedules: vec![],
        steps: 0,
        preemptions: 0,
        lock_cycles: 0,
        fired: Default::default(),
        probes: Default::default(),
    };
    let kinds: Vec<String> = sc.threads.iter().map(|t| t.iter().map(|o| o.kind()).collect::<Vec<_>>().join(",")).collect();
    let kinds = kinds.join("|");
    // how many chain events does the poll deliver? (first atomic order tells)
    let first = sequential_orders(sc, 1, 0);
    let n_events = run_scenario(sc, None, Some(&first[0]), 0, false).chain_events;
    out.runs += 1;
    let orders = sequential_orders(sc, 12, n_events);
    if orders.iter().any(|o| o.iter().any(|s| s.at.is_some())) {
        *out.probes.entry("orders_between_chain_events".into()).or_insert(0) += 1;
    }
    let mut refs: Vec<Projection> = vec![];
    for o in orders.iter() {
        let r = run_scenario(sc, None, Some(o), 0, true);
        out.runs += 1;
        for (k, v) in r.fired.iter() {
            *out.fired.entry(k.clone()).or_insert(0) += v;
        }
        if let Some((sig, d)) = abort_sig(&r) {
            out.found.push(CFound {
                property: "C11",
                signature: sig.replace("|concurrent|", "|sequential|"),
                detail: format!("sequential order {o:?}: {d}"),
                strat: None,
            });
            return out;
        }
        if let Err(e) = &r.live {
            out.found.push(CFound {
                property: "C11",
                signature: format!("C11|not_live|sequential|{}", first_line(e)),
                detail: format!("sequential order {o:?}: {e}"),
                strat: None,
            });
            return out;
        }
        if !refs.contains(&r.projection) {
            refs.push(r.projection);
        }
    }
    if refs.len() > 1 {
        *out.probes.entry("order_dependent_scenario".into()).or_insert(0) += 1;
    }
    // a first schedule to size PCT
    let mut est = 60u32;
    let strats = strategies_for(sc.seed, est, n_sched);
    for (i, (spec, _, seed)) in strats.iter().enumerate() {
        let (strategy, _) = strategy_of(spec, est);
        let r = run_scenario(sc, Some(strategy), None, *seed, true);
        out.runs += 1;
        let Some(sr) = r.sched.clone() else { continue };
        if i == 0 {
            est = (sr.steps as u32).max(10);
        }
        out.steps += sr.steps;
        out.preemptions += sr.preemptions;
        if sr.lock_order_cycle {
            out.lock_cycles += 1;
        }
        out.schedules.push(sr.trace.clone());
        let replay = Some(StratSpec::Replay(sr.trace.clone()));
        if let Some(stuck) = &sr.stuck {
            out.found.push(CFound {
                property: "C11",
                signature: format!("C11|{}", normalise_stuck(stuck)),
                detail: format!(
                    "threads [{kinds}] under {spec:?}: {stuck} after {} steps: {}",
                    sr.steps,
                    sr.stuck_detail.clone().unwrap_or_default()
                ),
                strat: replay,
            });
            continue;
        }
        if let Some((sig, d)) = abort_sig(&r) {
            out.found.push(CFound {
                property: "C11",
                signature: sig,
                detail: format!("threads [{kinds}] under {spec:?}: {d}"),
                strat: replay,
            });
            continue;
        }
        if let Err(e) = &r.live {
            out.found.push(CFound {
                property: "C11",
                signature: format!("C11|not_live|concurrent|{}", first_line(e)),
                detail: format!("threads [{kinds}] under {spec:?}: after the concurrent phase the tower is not live: {e}"),
                strat: replay,
            });
            continue;
        }
        if !refs.contains(&r.projection) {
            if std::env::var("SIM_DEBUG").is_ok() {
                eprintln!("[conc] schedule {:?}", sr.trace);
                eprintln!("[conc] outcome  {}", serde_json::to_string(&r.projection).unwrap());
                for (i, rf) in refs.iter().enumerate() {
                    eprintln!("[conc] ref #{i}   {}", serde_json::to_string(rf).unwrap());
                }
                for (i, o) in orders.iter().enumerate() {
                    eprintln!("[conc] order #{i} {:?}", o);
                }
            }
            *out.probes.entry("non_serialisable_outcome".into()).or_insert(0) += 1;
            out.found.push(CFound {
                property: "C10",
                signature: format!("C10|{}", classify(sc, &r.projection, &refs)),
                detail: format!(
                    "threads [{kinds}] under {spec:?}: outcome equals none of the {} sequential outcomes; {}",
                    refs.len(),
                    diff_projection(&r.projection, &refs)
                ),
                strat: replay,
            });
        }
    }
    out
}

/// Re-checks one scenario under one strategy (replay).
pub fn recheck(sc: &Scenario, spec: &Option<StratSpec>, property: &str, signature: &str) -> Option<String> {
    let o = match spec {
        None => explore_scenario(sc, 0),
        Some(spec) => {
            // rebuild the references, then run exactly this schedule
            let mut o = explore_scenario(sc, 0);
            if o.found.is_empty() {
                let first = sequential_orders(sc, 1, 0);
                let n_events = run_scenario(sc, None, Some(&first[0]), 0, false).chain_events;
                let orders = sequential_orders(sc, 12, n_events);
                let mut refs = vec![];
                for ord in orders.iter() {
                    let r = run_scenario(sc, None, Some(ord), 0, true);
                    if !refs.contains(&r.projection) {
                        refs.push(r.projection);
                    }
                }
                let (strategy, seed) = strategy_of(spec, 60);
                let r = run_scenario(sc, Some(strategy), None, seed, true);
                let kinds: Vec<String> = sc.threads.iter().map(|t| t.iter().map(|o| o.kind()).collect::<Vec<_>>().join(",")).collect();
                let kinds = kinds.join("|");
                if let Some(sr) = &r.sched {
                    if let Some(stuck) = &sr.stuck {
                        o.found.push(CFound { property: "C11", signature: format!("C11|{}", normalise_stuck(stuck)), detail: stuck.clone(), strat: None });
                    } else if let Some((sig, d)) = abort_sig(&r) {
                        o.found.push(CFound { property: "C11", signature: sig, detail: d, strat: None });
                    } else if let Err(e) = &r.live {
                        o.found.push(CFound { property: "C11", signature: format!("C11|not_live|concurrent|{}", first_line(e)), detail: e.clone(), strat: None });
                    } else if !refs.contains(&r.projection) {
                        if std::env::var("SIM_DEBUG").is_ok() {
                            eprintln!("[conc] outcome  {}", serde_json::to_string(&r.projection).unwrap());
                            for (i, rf) in refs.iter().enumerate() {
                                eprintln!("[conc] ref #{i}   {}", serde_json::to_string(rf).unwrap());
                            }
                        }
                        o.found.push(CFound {
                            property: "C10",
                            signature: format!("C10|{}", classify(sc, &r.projection, &refs)),
                            detail: diff_projection(&r.projection, &refs),
                            strat: None,
                        });
                    }
                }
            }
            o
        }
    };
    o.found
        .iter()
        .find(|f| f.property == property && f.signature == signature)
        .map(|f| f.detail.clone())
}

/// Shrinks a failing scenario (prefix and thread operations) while some schedule of the same set still shows the same
/// signature.
pub fn minimise_scenario(sc: &Scenario, property: &str, signature: &str, n_sched: usize, budget: usize) -> (Scenario, Option<StratSpec>) {
    let mut best = sc.clone();
    let mut used = 0;
    let check = |c: &Scenario| -> Option<Option<StratSpec>> {
        let o = explore_scenario(c, n_sched);
        o.found
            .iter()
            .find(|f| f.property == property && f.signature == signature)
            .map(|f| f.strat.clone())
    };
    let mut best_strat = check(&best).unwrap_or(None);
    let mut i = 0;
    while i < best.prefix.len() && used < budget {
        let mut c = best.clone();
        c.prefix.remove(i);
        used += 1;
        if let Some(s) = check(&c) {
            best = c;
            best_strat = s;
        } else {
            i += 1;
        }
    }
    for t in 0..best.threads.len() {
        let mut i = 0;
        while i < best.threads[t].len() && best.threads[t].len() > 1 && used < budget {
            let mut c = best.clone();
            c.threads[t].remove(i);
            used += 1;
            // signatures carry the operation kinds, so removing operations usually changes them; try anyway
            if let Some(s) = check(&c) {
                best = c;
                best_strat = s;
            } else {
                i += 1;
            }
        }
    }
    (best, best_strat)
}
