//! SimNode: an executable model of the parts of bitcoind the tower talks to.
//!
//! - chain store (stale blocks stay fetchable), active chain, mempool, UTXO-level spend tracking
//! - `sendrawtransaction` / `getrawtransaction` verdicts as a deterministic function of node state
//! - `lightning_block_sync::BlockSource` and `bitcoincore_rpc::jsonrpc::client::Transport` implementations
//! - fault script: outages, block-fetch failures, forced verdicts
//!
//! Verdict rules follow Bitcoin Core (node/transaction.cpp BroadcastTransaction, validation.cpp PreChecks,
//! rpc/rawtransaction.cpp getrawtransaction); see the comments at each rule.

use std::collections::{BTreeMap, BTreeSet, HashMap};
use std::sync::{Arc, Mutex};

use bitcoin::absolute::LockTime;
use bitcoin::block::{Header, Version as BlockVersion};
use bitcoin::consensus::{deserialize, serialize};
use bitcoin::hashes::{sha256, Hash};
use bitcoin::pow::Work;
use bitcoin::transaction::Version;
use bitcoin::{
    Amount, Block, BlockHash, OutPoint, ScriptBuf, Sequence, Transaction, TxIn, TxMerkleNode, TxOut,
    Txid, Witness,
};
use bitcoincore_rpc::jsonrpc;
use lightning_block_sync::{
    AsyncBlockSourceResult, BlockData, BlockHeaderData, BlockSource, BlockSourceError,
};
use serde_json::value::RawValue;

use crate::events::{Event, EventLog};

pub const MAX_INITIAL: u32 = 130;
pub const RPC_VERIFY_ERROR: i32 = -25;
pub const RPC_VERIFY_REJECTED: i32 = -26;
pub const RPC_VERIFY_ALREADY_IN_CHAIN: i32 = -27;
pub const RPC_INVALID_ADDRESS_OR_KEY: i32 = -5;

/// What the node answered to a `sendrawtransaction`.
#[derive(Clone, Copy, Debug, PartialEq, Eq, serde::Serialize, serde::Deserialize)]
pub enum Verdict {
    /// Entered the mempool, or was already there (Core re-announces and returns the txid).
    Ok,
    /// JSON-RPC error with this code.
    Err(i32),
    /// Transport-level failure (node unreachable).
    Transport,
    /// Non-JSON-RPC garbage (a reply the client library cannot decode).
    Garbage,
}

#[derive(Clone, Copy, Debug, PartialEq, Eq)]
pub enum FetchFault {
    Transient,
    Persistent,
}

#[derive(Default, Debug)]
pub struct Faults {
    /// Node is down: every RPC and every block-source call fails at transport level.
    pub down: bool,
    /// Go down when the n-th RPC (1-based, counted over the whole run) is issued.
    pub down_at_rpc: Option<u64>,
    /// Go down when the n-th block-source call is issued.
    pub down_at_bs: Option<u64>,
    /// Which class of transport error the current outage produces (see `transport_error`).
    pub flavour: u8,
    /// Scheduled outage scenarios: the chain thread has begun its closing polls; the environment starts no further outage.
    pub no_more_outages: bool,
    /// Fail the n-th `get_block` call (1-based, counted since the last `arm_fetch_fault`).
    pub fetch_fault: Option<(u64, FetchFault)>,
    pub fetch_calls: u64,
    /// Forced `sendrawtransaction` answers for specific transactions (only verdicts a real node could give).
    pub forced: HashMap<Txid, Verdict>,
    /// Forced `getrawtransaction` error codes.
    pub forced_getraw: HashMap<Txid, i32>,
}

pub struct NodeState {
    /// Every block ever produced, with its height.
    pub blocks: HashMap<BlockHash, (Block, u32)>,
    /// Active chain, index = height.
    pub active: Vec<BlockHash>,
    /// Outpoints that exist without a creating transaction (funding outputs of the generated universe).
    pub roots: BTreeSet<OutPoint>,
    /// Mempool in arrival order.
    pub mempool: Vec<Transaction>,
    /// Transactions policy would refuse (set at generation time).
    pub policy_invalid: BTreeSet<Txid>,
    /// Whether `getrawtransaction` sees confirmed transactions (-txindex).
    pub txindex: bool,
    // Derived from the active chain by `rebuild`.
    pub confirmed: HashMap<Txid, (BlockHash, u32)>,
    pub chain_spent: HashMap<OutPoint, Txid>,
    pub faults: Faults,
    pub rpc_count: u64,
    pub bs_count: u64,
    pub branch_nonce: u32,
    pub log: EventLog,
    /// Counters of faults that actually fired.
    pub fired: BTreeMap<&'static str, u64>,
    /// Blocks the node has lost from its active chain (it came back from an outage behind its former tip) and will
    /// connect again when it catches up, oldest first.
    pub lost: Vec<BlockHash>,
    /// Calls (RPC and block source) the node has answered, i.e. that did not end in a transport error.
    pub served_calls: u64,
}

#[derive(Clone)]
pub struct SimNode(pub Arc<Mutex<NodeState>>);

fn work_per_block() -> Work {
    static W: std::sync::OnceLock<Work> = std::sync::OnceLock::new();
    *W.get_or_init(|| genesis_header().work())
}

fn bits() -> bitcoin::CompactTarget {
    bitcoin::Target::from_be_bytes([0xff; 32]).to_compact_lossy()
}

fn genesis_header() -> Header {
    static G: std::sync::OnceLock<Header> = std::sync::OnceLock::new();
    *G.get_or_init(genesis_header_uncached)
}

fn genesis_header_uncached() -> Header {
    let mut h = Header {
        version: BlockVersion::from_consensus(0),
        prev_blockhash: BlockHash::all_zeros(),
        merkle_root: TxMerkleNode::all_zeros(),
        time: 1_600_000_000,
        bits: bits(),
        nonce: 0,
    };
    while h.validate_pow(h.target()).is_err() {
        h.nonce += 1;
    }
    h
}

pub fn coinbase(height: u32, nonce: u32) -> Transaction {
    let mut script = Vec::new();
    script.extend_from_slice(&height.to_le_bytes());
    script.extend_from_slice(&nonce.to_le_bytes());
    Transaction {
        version: Version::TWO,
        lock_time: LockTime::ZERO,
        input: vec![TxIn {
            previous_output: OutPoint::null(),
            script_sig: ScriptBuf::from_bytes(script),
            sequence: Sequence::MAX,
            witness: Witness::new(),
        }],
        output: vec![TxOut {
            value: Amount::from_sat(50_0000_0000),
            script_pubkey: ScriptBuf::from_bytes(vec![0x51]),
        }],
    }
}

fn build_block(prev: &Header, prev_hash: BlockHash, txs: Vec<Transaction>) -> Block {
    let hashes = txs.iter().map(|tx| tx.compute_txid().to_raw_hash());
    let root = bitcoin::merkle_tree::calculate_root(hashes).unwrap();
    let mut header = Header {
        version: BlockVersion::from_consensus(0),
        prev_blockhash: prev_hash,
        merkle_root: root.into(),
        time: prev.time + 1,
        bits: bits(),
        nonce: 0,
    };
    while header.validate_pow(header.target()).is_err() {
        header.nonce += 1;
    }
    Block {
        header,
        txdata: txs,
    }
}

impl NodeState {
    pub fn new(log: EventLog, initial_height: u32, txindex: bool) -> Self {
        let g = genesis_header();
        let gblock = Block {
            header: g,
            txdata: vec![coinbase(0, 0)],
        };
        // The genesis header's merkle root is not checked by anybody (it is never fetched as a block to connect).
        let mut st = NodeState {
            blocks: HashMap::new(),
            active: Vec::new(),
            roots: BTreeSet::new(),
            mempool: Vec::new(),
            policy_invalid: BTreeSet::new(),
            txindex,
            confirmed: HashMap::new(),
            chain_spent: HashMap::new(),
            faults: Faults::default(),
            rpc_count: 0,
            bs_count: 0,
            branch_nonce: 0,
            log,
            fired: BTreeMap::new(),
            lost: Vec::new(),
            served_calls: 0,
        };
        let gh = gblock.block_hash();
        st.blocks.insert(gh, (gblock, 0));
        st.active.push(gh);
        // The initial chain is a pure function of its length: build it once per process.
        static INITIAL: Mutex<Option<(Vec<(BlockHash, Block)>, u32)>> = Mutex::new(None);
        let mut cache = INITIAL.lock().unwrap_or_else(|e| e.into_inner());
        if cache.is_none() {
            let mut tmp = NodeState {
                blocks: st.blocks.clone(),
                active: st.active.clone(),
                roots: BTreeSet::new(),
                mempool: Vec::new(),
                policy_invalid: BTreeSet::new(),
                txindex,
                confirmed: HashMap::new(),
                chain_spent: HashMap::new(),
                faults: Faults::default(),
                rpc_count: 0,
                bs_count: 0,
                branch_nonce: 0,
                log: EventLog::new(),
                fired: BTreeMap::new(),
            lost: Vec::new(),
            served_calls: 0,
            };
            for _ in 0..MAX_INITIAL {
                tmp.mine(vec![]);
            }
            let chain: Vec<(BlockHash, Block)> = tmp.active.iter().map(|h| (*h, tmp.blocks[h].0.clone())).collect();
            *cache = Some((chain, tmp.branch_nonce));
        }
        let (chain, _) = cache.as_ref().unwrap();
        assert!(initial_height <= MAX_INITIAL, "HARNESS: initial height too large");
        for (h, (bh, b)) in chain.iter().enumerate().skip(1).take(initial_height as usize) {
            st.blocks.insert(*bh, (b.clone(), h as u32));
            st.active.push(*bh);
        }
        st.branch_nonce = 1_000_000;
        st.rebuild();
        st
    }

    pub fn height(&self) -> u32 {
        (self.active.len() - 1) as u32
    }

    pub fn tip(&self) -> BlockHash {
        *self.active.last().unwrap()
    }

    pub fn block_at(&self, height: u32) -> &Block {
        &self.blocks[&self.active[height as usize]].0
    }

    fn fire(&mut self, what: &'static str) {
        *self.fired.entry(what).or_insert(0) += 1;
    }

    fn rebuild(&mut self) {
        self.confirmed.clear();
        self.chain_spent.clear();
        for (h, bh) in self.active.iter().enumerate() {
            let block = &self.blocks[bh].0;
            for tx in block.txdata.iter() {
                let txid = tx.compute_txid();
                self.confirmed.insert(txid, (*bh, h as u32));
                for i in tx.input.iter() {
                    if !i.previous_output.is_null() {
                        self.chain_spent.insert(i.previous_output, txid);
                    }
                }
            }
        }
    }

    /// Is `op` an unspent output of the active chain (or an unspent funding root)?
    pub fn chain_coin(&self, op: &OutPoint) -> bool {
        if self.chain_spent.contains_key(op) {
            return false;
        }
        if self.roots.contains(op) {
            return true;
        }
        match self.confirmed.get(&op.txid) {
            Some((bh, _)) => {
                let block = &self.blocks[bh].0;
                block
                    .txdata
                    .iter()
                    .find(|t| t.compute_txid() == op.txid)
                    .map(|t| (op.vout as usize) < t.output.len())
                    .unwrap_or(false)
            }
            None => false,
        }
    }

    pub fn in_mempool(&self, txid: &Txid) -> bool {
        self.mempool.iter().any(|t| t.compute_txid() == *txid)
    }

    fn mempool_spender(&self, op: &OutPoint) -> Option<Txid> {
        for t in self.mempool.iter() {
            if t.input.iter().any(|i| i.previous_output == *op) {
                return Some(t.compute_txid());
            }
        }
        None
    }

    /// Does the node currently have this transaction (mempool or active chain)?
    pub fn has_tx(&self, txid: &Txid) -> bool {
        self.confirmed.contains_key(txid) || self.in_mempool(txid)
    }

    /// The verdict `sendrawtransaction(tx)` would get right now, without side effects.
    pub fn would_send(&self, tx: &Transaction) -> Verdict {
        let txid = tx.compute_txid();
        // Core, BroadcastTransaction(): "for (size_t o = 0; o < tx->vout.size(); o++) { const Coin& existingCoin =
        // view.AccessCoin(COutPoint(txid, o)); if (!existingCoin.IsSpent()) return TransactionError::ALREADY_IN_CHAIN; }"
        // -> RPC_VERIFY_ALREADY_IN_CHAIN (-27). Only when at least one output is still unspent.
        if self.confirmed.contains_key(&txid) {
            let any_unspent = (0..tx.output.len() as u32).any(|v| {
                !self.chain_spent.contains_key(&OutPoint { txid, vout: v })
            });
            if any_unspent {
                return Verdict::Err(RPC_VERIFY_ALREADY_IN_CHAIN);
            }
        }
        // Core: "if (auto mempool_tx = node.mempool->get(txid); mempool_tx) { // There's already a transaction in the
        // mempool with this txid. Don't try to submit this transaction ... but do attempt to reannounce" -> success.
        if self.in_mempool(&txid) {
            return Verdict::Ok;
        }
        // Policy (standardness, fees): represented only by the per-transaction mark. MEMPOOL_REJECTED -> -26.
        if self.policy_invalid.contains(&txid) {
            return Verdict::Err(RPC_VERIFY_REJECTED);
        }
        for i in tx.input.iter() {
            // PreChecks(): conflicts with in-mempool transactions are checked first ("txn-mempool-conflict", -26) ...
            if self.mempool_spender(&i.previous_output).is_some() {
                return Verdict::Err(RPC_VERIFY_REJECTED);
            }
        }
        for i in tx.input.iter() {
            // ... then "bad-txns-inputs-missingorspent" -> TransactionError::MISSING_INPUTS -> RPC_TRANSACTION_ERROR (-25).
            let op = i.previous_output;
            let available = self.chain_coin(&op)
                || self
                    .mempool
                    .iter()
                    .any(|t| t.compute_txid() == op.txid && (op.vout as usize) < t.output.len());
            if !available {
                return Verdict::Err(RPC_VERIFY_ERROR);
            }
        }
        Verdict::Ok
    }

    pub fn send_raw(&mut self, tx: &Transaction) -> Verdict {
        if let Some(v) = self.faults.forced.get(&tx.compute_txid()).copied() {
            self.fire("F2_forced_verdict");
            if v == Verdict::Ok && !self.in_mempool(&tx.compute_txid()) && self.would_send(tx) == Verdict::Ok {
                self.mempool.push(tx.clone());
            }
            return v;
        }
        let v = self.would_send(tx);
        if v == Verdict::Ok && !self.in_mempool(&tx.compute_txid()) {
            self.mempool.push(tx.clone());
        }
        match v {
            Verdict::Err(RPC_VERIFY_ERROR) => self.fire("F2_verdict_-25"),
            Verdict::Err(RPC_VERIFY_REJECTED) => self.fire("F2_verdict_-26"),
            Verdict::Err(RPC_VERIFY_ALREADY_IN_CHAIN) => self.fire("F2_verdict_-27"),
            _ => {}
        }
        v
    }

    /// getrawtransaction(txid, verbose=true): Ok(Some(blockhash)) / Ok(None) = in mempool / Err(code).
    pub fn get_raw(&self, txid: &Txid) -> Result<(Transaction, Option<BlockHash>), i32> {
        if let Some(code) = self.faults.forced_getraw.get(txid) {
            return Err(*code);
        }
        if let Some(t) = self.mempool.iter().find(|t| t.compute_txid() == *txid) {
            return Ok((t.clone(), None));
        }
        // Without -txindex Core only looks at the mempool: "No such mempool transaction. Use -txindex ..." (-5).
        if self.txindex {
            if let Some((bh, _)) = self.confirmed.get(txid) {
                let t = self.blocks[bh]
                    .0
                    .txdata
                    .iter()
                    .find(|t| t.compute_txid() == *txid)
                    .unwrap()
                    .clone();
                return Ok((t, Some(*bh)));
            }
        }
        Err(RPC_INVALID_ADDRESS_OR_KEY)
    }

    pub fn mine_rebuild_only(&mut self) {
        self.rebuild();
    }

    pub fn readmit(&mut self, candidates: Vec<Transaction>) {
        self.revalidate_mempool(candidates);
    }

    /// Re-validates the mempool against the active chain, keeping arrival order (Core: removeForReorg / removeConflicts).
    fn revalidate_mempool(&mut self, mut candidates: Vec<Transaction>) {
        candidates.append(&mut self.mempool);
        let mut kept: Vec<Transaction> = Vec::new();
        let mut spent: BTreeSet<OutPoint> = BTreeSet::new();
        let mut seen: BTreeSet<Txid> = BTreeSet::new();
        for t in candidates {
            let txid = t.compute_txid();
            if seen.contains(&txid) || self.confirmed.contains_key(&txid) {
                continue;
            }
            let ok = t.input.iter().all(|i| {
                let op = i.previous_output;
                !spent.contains(&op)
                    && (self.chain_coin(&op)
                        || kept
                            .iter()
                            .any(|k| k.compute_txid() == op.txid && (op.vout as usize) < k.output.len()))
            });
            if ok {
                for i in t.input.iter() {
                    spent.insert(i.previous_output);
                }
                seen.insert(txid);
                kept.push(t);
            }
        }
        self.mempool = kept;
    }

    /// Can `tx` be included in a block built on top of the active chain after `earlier` (same block)?
    pub fn minable(&self, tx: &Transaction, earlier: &[Transaction]) -> bool {
        let txid = tx.compute_txid();
        if self.confirmed.contains_key(&txid) || earlier.iter().any(|e| e.compute_txid() == txid) {
            return false;
        }
        tx.input.iter().all(|i| {
            let op = i.previous_output;
            let spent_earlier = earlier
                .iter()
                .any(|e| e.input.iter().any(|ei| ei.previous_output == op));
            !spent_earlier
                && (self.chain_coin(&op)
                    || earlier
                        .iter()
                        .any(|e| e.compute_txid() == op.txid && (op.vout as usize) < e.output.len()))
        })
    }

    /// Mines a block with `txs` (in order) on top of the active tip. Panics if a transaction is not minable
    /// (a generator bug, not a tower bug).
    pub fn mine(&mut self, txs: Vec<Transaction>) -> BlockHash {
        let mut included: Vec<Transaction> = Vec::new();
        for t in txs {
            assert!(self.minable(&t, &included), "generator asked to mine an invalid transaction");
            included.push(t);
        }
        let height = self.height() + 1;
        self.branch_nonce += 1;
        let mut all = vec![coinbase(height, self.branch_nonce)];
        all.extend(included);
        let prev_hash = self.tip();
        let prev = self.blocks[&prev_hash].0.header;
        let block = build_block(&prev, prev_hash, all);
        let bh = block.block_hash();
        for tx in block.txdata.iter() {
            let txid = tx.compute_txid();
            self.confirmed.insert(txid, (bh, height));
            for i in tx.input.iter() {
                if !i.previous_output.is_null() {
                    self.chain_spent.insert(i.previous_output, txid);
                }
            }
        }
        self.blocks.insert(bh, (block, height));
        self.active.push(bh);
        if !self.mempool.is_empty() {
            self.revalidate_mempool(vec![]);
        }
        bh
    }

    /// Replaces everything above `fork_height` by a new branch. The branch must end up strictly longer than the old
    /// chain (equal-work tips are only "worse tips", see `mine_side_block`).
    pub fn reorg(&mut self, fork_height: u32, branch: Vec<Vec<Transaction>>) {
        let old_height = self.height();
        assert!(fork_height < old_height);
        assert!(fork_height as usize + branch.len() > old_height as usize);
        let mut returned: Vec<Transaction> = Vec::new();
        for h in (fork_height + 1)..=old_height {
            let b = self.block_at(h).clone();
            returned.extend(b.txdata.into_iter().skip(1));
        }
        self.active.truncate(fork_height as usize + 1);
        self.rebuild();
        // Keep the old mempool aside so that the branch can be built from any valid transaction.
        let old_mempool = std::mem::take(&mut self.mempool);
        for txs in branch {
            self.mine(txs);
        }
        let mut candidates = returned;
        candidates.extend(old_mempool);
        self.revalidate_mempool(candidates);
        self.fire("F5_reorg");
    }

    /// `preciousblock` on a sibling of the tip (Bitcoin Core, src/rpc/blockchain.cpp `preciousblock` ->
    /// `Chainstate::PreciousBlock`): the node switches to an **equal-work** branch -- the tip is replaced by one block at
    /// the same height holding `txs` (those valid there); the transactions of the old tip go back to the mempool when still
    /// valid. A poller that knew the old tip sees `ChainTip::Worse` with the same chainwork until a block is mined on top.
    pub fn precious_sibling(&mut self, txs: Vec<Transaction>) -> bool {
        let height = self.height();
        if height < 3 || !self.lost.is_empty() {
            return false;
        }
        let returned: Vec<Transaction> = self.block_at(height).clone().txdata.into_iter().skip(1).collect();
        self.active.truncate(height as usize);
        self.mine_rebuild_only();
        let old_mempool = std::mem::take(&mut self.mempool);
        let mut inc: Vec<Transaction> = vec![];
        for tx in txs {
            if self.minable(&tx, &inc) {
                inc.push(tx);
            }
        }
        self.mine(inc);
        let mut cands = returned;
        cands.extend(old_mempool);
        self.readmit(cands);
        self.fire("F5_equal_work_tip_switch");
        true
    }

    /// The node has lost its last `k` blocks (unclean shutdown, `invalidateblock`): they leave the active chain, their
    /// transactions go back to the mempool, the blocks themselves stay known (they can still be fetched by hash).
    pub fn fall_behind(&mut self, k: u32) -> u32 {
        let k = k.min(self.height().saturating_sub(2));
        if k == 0 || !self.lost.is_empty() {
            return 0;
        }
        let new_height = self.height() - k;
        let mut returned: Vec<Transaction> = Vec::new();
        for h in (new_height + 1)..=self.height() {
            returned.extend(self.block_at(h).clone().txdata.into_iter().skip(1));
            self.lost.push(self.active[h as usize]);
        }
        self.active.truncate(new_height as usize + 1);
        self.rebuild();
        self.revalidate_mempool(returned);
        self.fire("F9_node_back_behind_its_former_tip");
        k
    }

    /// The node connects the blocks it had lost again (nothing was mined on top of the shorter chain meanwhile).
    pub fn catch_up(&mut self) {
        if self.lost.is_empty() {
            return;
        }
        let lost = std::mem::take(&mut self.lost);
        if lost.first().map(|b| self.blocks[b].0.header.prev_blockhash) == Some(self.tip()) {
            self.active.extend(lost);
            self.rebuild();
            self.revalidate_mempool(vec![]);
        }
    }

    /// Builds a block at the same height as the tip on a sibling branch without making it active... and then makes
    /// it the *reported* best block for exactly one poll (equal work: ChainTip::Worse).
    pub fn side_block_hash(&mut self) -> BlockHash {
        let height = self.height();
        let prev_hash = self.active[height as usize - 1];
        let prev = self.blocks[&prev_hash].0.header;
        self.branch_nonce += 1;
        let block = build_block(&prev, prev_hash, vec![coinbase(height, self.branch_nonce)]);
        let bh = block.block_hash();
        self.blocks.insert(bh, (block, height));
        bh
    }

    /// Drops a transaction from the mempool (expiry / eviction). Descendants go with it.
    pub fn evict(&mut self, txid: &Txid) -> bool {
        let before = self.mempool.len();
        self.mempool.retain(|t| t.compute_txid() != *txid);
        let changed = self.mempool.len() != before;
        if changed {
            self.revalidate_mempool(vec![]);
            self.fire("F6_evict");
        }
        changed
    }

    fn header_data(&self, bh: &BlockHash) -> Option<BlockHeaderData> {
        self.blocks.get(bh).map(|(b, h)| {
            let mut work = work_per_block();
            for _ in 0..*h {
                work = work + work_per_block();
            }
            BlockHeaderData {
                header: b.header,
                height: *h,
                chainwork: work,
            }
        })
    }

    /// Called at the start of every RPC / block-source call: decides whether the node is reachable.
    fn reachable(&mut self, is_rpc: bool) -> bool {
        if is_rpc {
            self.rpc_count += 1;
            if self.faults.down_at_rpc == Some(self.rpc_count) {
                self.faults.down = true;
                self.faults.down_at_rpc = None;
                self.faults.flavour = (self.rpc_count % 5) as u8;
            }
        } else {
            self.bs_count += 1;
            if self.faults.down_at_bs == Some(self.bs_count) {
                self.faults.down = true;
                self.faults.down_at_bs = None;
                self.faults.flavour = (self.bs_count % 5) as u8;
            }
        }
        if self.faults.down {
            self.fire(if is_rpc { "F1_outage_rpc" } else { "F1_outage_blocksource" });
        } else {
            self.served_calls += 1;
        }
        !self.faults.down
    }
}

/// Precomputed chainwork is O(height) per header; heights are a few hundred so this stays cheap, but cache anyway.
impl SimNode {
    pub fn new(log: EventLog, initial_height: u32, txindex: bool) -> Self {
        SimNode(Arc::new(Mutex::new(NodeState::new(log, initial_height, txindex))))
    }

    pub fn lock(&self) -> std::sync::MutexGuard<'_, NodeState> {
        self.0.lock().unwrap_or_else(|e| e.into_inner())
    }

    /// Override of the best block reported by `get_best_block` (used for the equal-work "worse tip" probe).
    pub fn rpc_client(&self) -> bitcoincore_rpc::Client {
        bitcoincore_rpc::Client::from_jsonrpc(jsonrpc::client::Client::with_transport(NodeTransport {
            node: self.clone(),
        }))
    }
}

thread_local! {
    /// Best-block override for the current thread's next poll (equal-work tip probe).
    pub static BEST_OVERRIDE: std::cell::Cell<Option<BlockHash>> = const { std::cell::Cell::new(None) };
}

impl BlockSource for SimNode {
    fn get_header<'a>(
        &'a self,
        header_hash: &'a BlockHash,
        _height_hint: Option<u32>,
    ) -> AsyncBlockSourceResult<'a, BlockHeaderData> {
        Box::pin(async move {
            crate::hooks::rpc_point("bs:get_header");
            let mut st = self.lock();
            if !st.reachable(false) {
                return Err(BlockSourceError::transient("connection refused"));
            }
            st.header_data(header_hash)
                .ok_or_else(|| BlockSourceError::transient("header not found"))
        })
    }

    fn get_block<'a>(&'a self, header_hash: &'a BlockHash) -> AsyncBlockSourceResult<'a, BlockData> {
        Box::pin(async move {
            crate::hooks::rpc_point("bs:get_block");
            let mut st = self.lock();
            if !st.reachable(false) {
                return Err(BlockSourceError::transient("connection refused"));
            }
            st.faults.fetch_calls += 1;
            if let Some((n, kind)) = st.faults.fetch_fault {
                if n == st.faults.fetch_calls {
                    st.faults.fetch_fault = None;
                    st.fire("F3_block_fetch_fault");
                    return Err(match kind {
                        FetchFault::Transient => BlockSourceError::transient("block fetch failed"),
                        FetchFault::Persistent => BlockSourceError::persistent("block fetch failed"),
                    });
                }
            }
            st.blocks
                .get(header_hash)
                .map(|(b, _)| BlockData::FullBlock(b.clone()))
                .ok_or_else(|| BlockSourceError::transient("block not found"))
        })
    }

    fn get_best_block(&self) -> AsyncBlockSourceResult<(BlockHash, Option<u32>)> {
        Box::pin(async move {
            crate::hooks::rpc_point("bs:get_best_block");
            let mut st = self.lock();
            if !st.reachable(false) {
                return Err(BlockSourceError::transient("connection refused"));
            }
            if let Some(bh) = BEST_OVERRIDE.with(|c| c.take()) {
                let h = st.blocks[&bh].1;
                st.fire("F7_worse_tip");
                return Ok((bh, Some(h)));
            }
            Ok((st.tip(), Some(st.height())))
        })
    }
}

pub struct NodeTransport {
    node: SimNode,
}

/// The transport error of an outage, in the classes the real transport (`jsonrpc::simple_http`) produces. The class is
/// fixed for the whole outage (drawn from the number of the call at which it started).
fn transport_error(flavour: u8) -> jsonrpc::Error {
    use jsonrpc::simple_http::Error as H;
    let e: Box<dyn std::error::Error + Send + Sync> = match flavour % 5 {
        0 => Box::new(H::SocketError(std::io::Error::new(std::io::ErrorKind::ConnectionRefused, "connection refused (simulated)"))),
        1 => Box::new(H::HttpErrorCode(503)),
        2 => Box::new(H::SocketError(std::io::Error::new(std::io::ErrorKind::TimedOut, "timed out (simulated)"))),
        3 => Box::new(H::HttpErrorCode(502)),
        _ => Box::new(TransportDown),
    };
    jsonrpc::Error::Transport(e)
}

#[derive(Debug)]
struct TransportDown;
impl std::fmt::Display for TransportDown {
    fn fmt(&self, f: &mut std::fmt::Formatter) -> std::fmt::Result {
        write!(f, "connection refused (simulated)")
    }
}
impl std::error::Error for TransportDown {}

fn raw(v: serde_json::Value) -> Box<RawValue> {
    RawValue::from_string(v.to_string()).unwrap()
}

impl jsonrpc::client::Transport for NodeTransport {
    fn send_request(&self, req: jsonrpc::Request) -> Result<jsonrpc::Response, jsonrpc::Error> {
        crate::hooks::rpc_point("rpc:before");
        let params: Vec<serde_json::Value> = req
            .params
            .map(|p| serde_json::from_str(p.get()).unwrap_or_default())
            .unwrap_or_default();
        let ok = |v: serde_json::Value| jsonrpc::Response {
            result: Some(raw(v)),
            error: None,
            id: req.id.clone(),
            jsonrpc: Some("2.0".into()),
        };
        let err = |code: i32, msg: &str| jsonrpc::Response {
            result: None,
            error: Some(jsonrpc::error::RpcError {
                code,
                message: msg.to_owned(),
                data: None,
            }),
            id: req.id.clone(),
            jsonrpc: Some("2.0".into()),
        };
        let mut st = self.node.lock();
        let reachable = st.reachable(true);
        let res = match req.method {
            "sendrawtransaction" => {
                let hex_tx = params.first().and_then(|v| v.as_str()).unwrap_or("");
                let parsed: Option<Transaction> = hex::decode(hex_tx).ok().and_then(|b| deserialize(&b).ok());
                match parsed {
                    None => {
                        st.log.push(Event::Rpc {
                            method: "sendrawtransaction",
                            txid: None,
                            verdict: Verdict::Err(-22),
                        });
                        Ok(err(-22, "TX decode failed"))
                    }
                    Some(tx) => {
                        let txid = tx.compute_txid();
                        let v = if reachable { st.send_raw(&tx) } else { Verdict::Transport };
                        st.log.push(Event::Rpc {
                            method: "sendrawtransaction",
                            txid: Some(txid),
                            verdict: v,
                        });
                        match v {
                            Verdict::Ok => Ok(ok(serde_json::json!(txid.to_string()))),
                            Verdict::Err(c) => Ok(err(
                                c,
                                match c {
                                    RPC_VERIFY_ERROR => "bad-txns-inputs-missingorspent",
                                    RPC_VERIFY_REJECTED => "txn-mempool-conflict",
                                    RPC_VERIFY_ALREADY_IN_CHAIN => "Transaction already in block chain",
                                    _ => "error",
                                },
                            )),
                            Verdict::Transport => Err(transport_error(st.faults.flavour)),
                            Verdict::Garbage => Err(jsonrpc::Error::Json(
                                serde_json::from_str::<serde_json::Value>("<html>").unwrap_err(),
                            )),
                        }
                    }
                }
            }
            "getrawtransaction" => {
                let txid: Option<Txid> = params
                    .first()
                    .and_then(|v| v.as_str())
                    .and_then(|s| s.parse().ok());
                match txid {
                    None => Ok(err(-8, "txid must be of length 64")),
                    Some(txid) => {
                        if !reachable {
                            st.log.push(Event::Rpc {
                                method: "getrawtransaction",
                                txid: Some(txid),
                                verdict: Verdict::Transport,
                            });
                            Err(transport_error(st.faults.flavour))
                        } else {
                            match st.get_raw(&txid) {
                                Ok((tx, bh)) => {
                                    st.log.push(Event::Rpc {
                                        method: "getrawtransaction",
                                        txid: Some(txid),
                                        verdict: if bh.is_none() { Verdict::Ok } else { Verdict::Err(0) },
                                    });
                                    let mut o = serde_json::json!({
                                        "hex": hex::encode(serialize(&tx)),
                                        "txid": txid.to_string(),
                                        "hash": tx.compute_wtxid().to_string(),
                                        "size": serialize(&tx).len(),
                                        "vsize": tx.vsize(),
                                        "version": 2,
                                        "locktime": 0,
                                        "vin": [],
                                        "vout": [],
                                    });
                                    if let Some(bh) = bh {
                                        o["blockhash"] = serde_json::json!(bh.to_string());
                                        o["confirmations"] = serde_json::json!(1);
                                        o["in_active_chain"] = serde_json::json!(true);
                                    }
                                    Ok(ok(o))
                                }
                                Err(code) => {
                                    st.log.push(Event::Rpc {
                                        method: "getrawtransaction",
                                        txid: Some(txid),
                                        verdict: Verdict::Err(code),
                                    });
                                    Ok(err(code, "No such mempool transaction"))
                                }
                            }
                        }
                    }
                }
            }
            "getblockcount" => {
                if !reachable {
                    Err(transport_error(st.faults.flavour))
                } else {
                    Ok(ok(serde_json::json!(st.height())))
                }
            }
            other => {
                if !reachable {
                    Err(transport_error(st.faults.flavour))
                } else {
                    Ok(err(-32601, &format!("Method not found: {other}")))
                }
            }
        };
        drop(st);
        crate::hooks::rpc_point("rpc:after");
        res
    }

    fn send_batch(&self, _: &[jsonrpc::Request]) -> Result<Vec<jsonrpc::Response>, jsonrpc::Error> {
        Err(jsonrpc::Error::EmptyBatch)
    }

    fn fmt_target(&self, f: &mut std::fmt::Formatter) -> std::fmt::Result {
        write!(f, "simnode")
    }
}

// ---------------------------------------------------------------------------------------------
// The generated transaction universe

/// Transactions are derived from (seed, index) only, so an operation list is meaningful on its own.
#[derive(Clone, Debug)]
pub struct Universe {
    pub seed: u64,
}

fn h32(tag: &str, seed: u64, idx: u64) -> [u8; 32] {
    let mut data = tag.as_bytes().to_vec();
    data.extend_from_slice(&seed.to_le_bytes());
    data.extend_from_slice(&idx.to_le_bytes());
    sha256::Hash::hash(&data).to_byte_array()
}

impl Universe {
    pub fn fund_outpoint(&self, d: u32) -> OutPoint {
        OutPoint {
            txid: Txid::from_byte_array(h32("fund", self.seed, d as u64)),
            vout: 0,
        }
    }

    /// The dispute (revoked commitment) transaction #d: spends a funding output, has a to_local (0) and a
    /// to_remote (1) output; only output 0 is ever spent by penalties.
    pub fn dispute(&self, d: u32) -> Transaction {
        Transaction {
            version: Version::TWO,
            lock_time: LockTime::ZERO,
            input: vec![TxIn {
                previous_output: self.fund_outpoint(d),
                script_sig: ScriptBuf::new(),
                sequence: Sequence::MAX,
                witness: Witness::new(),
            }],
            output: vec![
                TxOut {
                    value: Amount::from_sat(10_000 + d as u64),
                    script_pubkey: ScriptBuf::from_bytes(vec![0x51]),
                },
                TxOut {
                    value: Amount::from_sat(5_000),
                    script_pubkey: ScriptBuf::from_bytes(vec![0x52]),
                },
            ],
        }
    }

    /// A second, conflicting version of the commitment (spends the same funding output).
    pub fn dispute_alt(&self, d: u32) -> Transaction {
        let mut t = self.dispute(d);
        t.output[1].value = Amount::from_sat(4_999);
        t
    }

    /// Penalty #variant for dispute d, padded so that its encrypted blob has exactly `blob_len` bytes when
    /// blob_len >= 77 (61-byte minimal tx + 16-byte tag); smaller requests give the minimal transaction.
    pub fn penalty(&self, d: u32, variant: u32, blob_len: usize) -> Transaction {
        let dispute = self.dispute(d);
        let mk = |pad: usize| Transaction {
            version: Version::TWO,
            lock_time: LockTime::ZERO,
            input: vec![TxIn {
                previous_output: OutPoint {
                    txid: dispute.compute_txid(),
                    vout: 0,
                },
                script_sig: ScriptBuf::new(),
                sequence: Sequence::MAX,
                witness: Witness::new(),
            }],
            output: vec![TxOut {
                value: Amount::from_sat(9_000 - variant as u64),
                script_pubkey: ScriptBuf::from_bytes(vec![0x6a; pad]),
            }],
        };
        let target = blob_len.saturating_sub(16);
        let mut pad = 1usize;
        let base = serialize(&mk(1)).len();
        if target > base {
            pad = 1 + (target - base);
            // The script length varint grows at 253 bytes.
            let mut t = mk(pad);
            while serialize(&t).len() > target && pad > 1 {
                pad -= 1;
                t = mk(pad);
            }
            return t;
        }
        mk(pad)
    }

    pub fn filler(&self, n: u32) -> (Transaction, OutPoint) {
        let op = OutPoint {
            txid: Txid::from_byte_array(h32("filler", self.seed, n as u64)),
            vout: 0,
        };
        (
            Transaction {
                version: Version::TWO,
                lock_time: LockTime::ZERO,
                input: vec![TxIn {
                    previous_output: op,
                    script_sig: ScriptBuf::new(),
                    sequence: Sequence::MAX,
                    witness: Witness::new(),
                }],
                output: vec![TxOut {
                    value: Amount::from_sat(1_000),
                    script_pubkey: ScriptBuf::from_bytes(vec![0x53]),
                }],
            },
            op,
        )
    }

    pub fn user_sk(&self, u: u32) -> bitcoin::secp256k1::SecretKey {
        let mut i = 0u64;
        loop {
            if let Ok(sk) = bitcoin::secp256k1::SecretKey::from_slice(&h32("user", self.seed, ((u as u64) << 16) | i)) {
                return sk;
            }
            i += 1;
        }
    }
}
