//! C15: the real public HTTP front (warp router of teos/src/api/http.rs, served by hyper over an in-memory pipe) in
//! front of the real internal API (reached through a real tonic channel and server joined by another in-memory pipe),
//! all on one current-thread tokio runtime with a paused clock.
//!
//! The harness writes the bytes of a complete HTTP/1.1 request and reads the bytes of the reply. Requests are derived
//! from the request an ordinary operation would have made (so that the surrounding history, the reference model and all
//! its oracles stay in charge of what a *valid* request must answer) by a [HttpMut].

use std::cell::RefCell;
use std::future::Future;
use std::pin::Pin;
use std::sync::Arc;
use std::time::Duration;

use serde::{Deserialize, Serialize};
use serde_json::{json, Map, Value};
use tokio::io::{AsyncReadExt, AsyncWriteExt};

use teos::api::internal::InternalAPI;
use teos::protos::public_tower_services_client::PublicTowerServicesClient;
use teos::protos::public_tower_services_server::PublicTowerServicesServer;

use crate::rng::Rng;
use crate::tower::ApiErr;

/// How the valid JSON request of the base operation is turned into the HTTP request actually sent.
#[derive(Serialize, Deserialize, Clone, Debug, PartialEq, Eq, Hash)]
pub enum HttpMut {
    // ---- the request keeps its meaning: the answer is judged by the reference model as for the base operation
    Plain,
    /// Pretty printed / extra whitespace around tokens.
    Whitespace,
    /// An unknown extra field (top level and inside `appointment`).
    ExtraField,
    /// Fields in reverse order.
    Reorder,
    /// Hex strings in upper case.
    UpperHex,
    /// Every string written with \u escapes.
    Escaped,
    // ---- the request is not a valid request of the documented API any more: it must be refused
    /// The n-th leaf/field (mod count) removed.
    Drop(u32),
    /// The n-th field given twice.
    Dup(u32),
    /// The n-th field replaced by a value of another JSON type (kind: null, bool, number, string, array, object, or one
    /// of six long strings, some of multi-byte characters).
    Retype(u32, u32),
    /// Locator / user id made `delta` bytes longer or shorter (0 = emptied).
    Resize(i32),
    /// A hex field with an odd number of digits.
    OddHex(u32),
    /// A hex field with a non-hex character.
    NonHex(u32),
    /// Signature (or the only field) set to the empty string.
    EmptyString(u32),
    /// Body padded beyond the endpoint's content-length cap (by `extra` bytes beyond it).
    Oversize(u32),
    /// Sent with chunked transfer encoding, i.e. without a content-length.
    NoLength,
    /// Another method (GET, PUT, DELETE, PATCH, HEAD, OPTIONS).
    Method(u32),
    /// A path that is not an endpoint (prefix, suffix, case, extra segment, empty).
    Path(u32),
    /// Body replaced by `len` seeded raw bytes.
    Raw(u32, u32),
    /// Body replaced by JSON nested `depth` deep.
    Deep(u32),
    /// Valid body cut after `n` (mod len) bytes.
    Truncated(u32),
    /// `to_self_delay` (or a new numeric field where there is none) out of range: 2^32, -1, 1.5, 1e400.
    NumRange(u32),
    /// The whole body is valid JSON of another top-level type (null, number, string, empty array, empty object).
    TopLevel(u32),
}

impl HttpMut {
    pub fn preserving(&self) -> bool {
        matches!(
            self,
            HttpMut::Plain | HttpMut::Whitespace | HttpMut::ExtraField | HttpMut::Reorder | HttpMut::UpperHex | HttpMut::Escaped
        )
    }

    pub fn gen(r: &mut Rng) -> HttpMut {
        if r.chance(2, 5) {
            match r.below(8) {
                0 | 1 | 2 => HttpMut::Plain,
                3 => HttpMut::Whitespace,
                4 => HttpMut::ExtraField,
                5 => HttpMut::Reorder,
                6 => HttpMut::UpperHex,
                _ => HttpMut::Escaped,
            }
        } else {
            match r.below(17) {
                0 => HttpMut::Drop(r.below(8) as u32),
                1 => HttpMut::Dup(r.below(8) as u32),
                2 => HttpMut::Retype(r.below(8) as u32, r.below(12) as u32),
                3 => HttpMut::Resize(*r.pick(&[-16i32, -15, -1, 1, 0, 0, 17, 100])),
                4 => HttpMut::OddHex(r.below(4) as u32),
                5 => HttpMut::NonHex(r.below(4) as u32),
                6 => HttpMut::EmptyString(r.below(4) as u32),
                7 => HttpMut::Oversize(*r.pick(&[1u32, 2, 100, 5000, 100_000])),
                8 => HttpMut::NoLength,
                9 => HttpMut::Method(r.below(6) as u32),
                10 => HttpMut::Path(r.below(6) as u32),
                11 => HttpMut::Raw(r.below(1 << 30) as u32, *r.pick(&[0u32, 1, 2, 16, 80, 87, 500])),
                12 => HttpMut::Deep(*r.pick(&[5u32, 40, 127, 128, 129, 500, 1000])),
                13 => HttpMut::Truncated(r.below(4096) as u32),
                14 => HttpMut::NumRange(r.below(4) as u32),
                15 => HttpMut::TopLevel(r.below(5) as u32),
                _ => HttpMut::Retype(r.below(8) as u32, r.below(12) as u32),
            }
        }
    }
}

#[derive(Clone, Copy, Debug, PartialEq, Eq)]
pub enum Endpoint {
    Register,
    AddAppointment,
    GetAppointment,
    GetSubscriptionInfo,
    Ping,
}

impl Endpoint {
    pub fn path(&self) -> &'static str {
        match self {
            Endpoint::Register => "register",
            Endpoint::AddAppointment => "add_appointment",
            Endpoint::GetAppointment => "get_appointment",
            Endpoint::GetSubscriptionInfo => "get_subscription_info",
            Endpoint::Ping => "ping",
        }
    }
    /// The documented per-endpoint body caps (teos/src/api/http.rs *_BODY_LEN, also in the API documentation).
    pub fn cap(&self) -> usize {
        match self {
            Endpoint::Register => 87,
            Endpoint::AddAppointment => 2048,
            Endpoint::GetAppointment => 178,
            Endpoint::GetSubscriptionInfo => 127,
            Endpoint::Ping => usize::MAX,
        }
    }
    pub fn method(&self) -> &'static str {
        match self {
            Endpoint::Ping => "GET",
            _ => "POST",
        }
    }
}

#[derive(Clone, Debug)]
pub struct HttpReply {
    pub status: u16,
    pub body: Vec<u8>,
}

#[derive(Clone, Debug)]
pub enum HttpOutcome {
    Reply(HttpReply),
    /// No (complete) reply within 60 virtual seconds.
    Timeout,
    /// The connection was closed without a complete reply.
    Closed(String),
}

type Call = Box<dyn Fn(Vec<u8>) -> Pin<Box<dyn Future<Output = HttpOutcome>>>>;

pub struct HttpFront {
    rt: tokio::runtime::Runtime,
    call: Call,
}

async fn read_reply(io: &mut tokio::io::DuplexStream, head_only: bool) -> HttpOutcome {
    let mut buf: Vec<u8> = vec![];
    let mut tmp = [0u8; 4096];
    loop {
        // a complete reply?
        if let Some(pos) = buf.windows(4).position(|w| w == b"\r\n\r\n") {
            let head = String::from_utf8_lossy(&buf[..pos]).to_string();
            let mut lines = head.split("\r\n");
            let status_line = lines.next().unwrap_or("");
            let status: u16 = status_line.split(' ').nth(1).and_then(|s| s.parse().ok()).unwrap_or(0);
            if status == 100 {
                buf.drain(..pos + 4);
                continue;
            }
            let mut content_length: Option<usize> = None;
            let mut chunked = false;
            for l in lines {
                let mut kv = l.splitn(2, ':');
                let k = kv.next().unwrap_or("").trim().to_ascii_lowercase();
                let v = kv.next().unwrap_or("").trim().to_string();
                if k == "content-length" {
                    content_length = v.parse().ok();
                }
                if k == "transfer-encoding" && v.to_ascii_lowercase().contains("chunked") {
                    chunked = true;
                }
            }
            let body_start = pos + 4;
            if head_only {
                return HttpOutcome::Reply(HttpReply { status, body: vec![] });
            }
            if chunked {
                // replies of this API are never chunked; read what is there until the terminating chunk
                if buf[body_start..].windows(5).any(|w| w == b"0\r\n\r\n") {
                    return HttpOutcome::Reply(HttpReply { status, body: buf[body_start..].to_vec() });
                }
            } else {
                let n = content_length.unwrap_or(0);
                if buf.len() >= body_start + n {
                    return HttpOutcome::Reply(HttpReply { status, body: buf[body_start..body_start + n].to_vec() });
                }
            }
        }
        match io.read(&mut tmp).await {
            Ok(0) => return HttpOutcome::Closed(format!("eof after {} bytes", buf.len())),
            Ok(n) => buf.extend_from_slice(&tmp[..n]),
            Err(e) => return HttpOutcome::Closed(format!("read error: {e}")),
        }
    }
}

impl HttpFront {
    pub fn new(api: Arc<InternalAPI>) -> HttpFront {
        let rt = tokio::runtime::Builder::new_current_thread()
            .enable_time()
            .start_paused(true)
            .build()
            .expect("HARNESS: tokio runtime");
        let call: Call = rt.block_on(async move {
            let (client_io, server_io) = tokio::io::duplex(1 << 20);
            // the real gRPC server of the public API (main.rs: `Server::builder().add_service(PublicTowerServicesServer::new(..))`)
            let incoming = tokio_stream::StreamExt::chain(
                tokio_stream::iter(vec![Ok::<_, std::io::Error>(server_io)]),
                tokio_stream::pending(),
            );
            tokio::spawn(async move {
                let _ = tonic::transport::Server::builder()
                    .add_service(PublicTowerServicesServer::new(api))
                    .serve_with_incoming(incoming)
                    .await;
            });
            let slot = Arc::new(std::sync::Mutex::new(Some(client_io)));
            let channel = tonic::transport::Endpoint::from_static("http://tower.sim")
                .connect_with_connector(tower::service_fn(move |_: http::Uri| {
                    let io = slot.lock().unwrap().take();
                    async move { io.ok_or_else(|| std::io::Error::new(std::io::ErrorKind::Other, "sim: single connection")) }
                }))
                .await
                .expect("HARNESS: tonic channel over the in-memory pipe");
            let router = teos::api::http::verif_router(PublicTowerServicesClient::new(channel));
            let svc = warp::service(router);
            let call: Call = Box::new(move |raw: Vec<u8>| {
                let svc = svc.clone();
                let head_only = raw.starts_with(b"HEAD ");
                Box::pin(async move {
                    let (mut c, s) = tokio::io::duplex(1 << 22);
                    let conn = tokio::spawn(async move {
                        let _ = hyper::server::conn::Http::new().serve_connection(s, svc).await;
                    });
                    if let Err(e) = c.write_all(&raw).await {
                        return HttpOutcome::Closed(format!("write error: {e}"));
                    }
                    let out = match tokio::time::timeout(Duration::from_secs(60), read_reply(&mut c, head_only)).await {
                        Ok(o) => o,
                        Err(_) => HttpOutcome::Timeout,
                    };
                    drop(c);
                    conn.abort();
                    let _ = conn.await;
                    out
                })
            });
            call
        });
        HttpFront { rt, call }
    }

    pub fn request(&self, raw: Vec<u8>) -> HttpOutcome {
        self.rt.block_on((self.call)(raw))
    }
}

// ---------------------------------------------------------------------------------------------
// Request construction

fn hex_fields(ep: Endpoint) -> Vec<Vec<&'static str>> {
    match ep {
        Endpoint::Register => vec![vec!["user_id"]],
        Endpoint::AddAppointment => vec![vec!["appointment", "locator"], vec!["appointment", "encrypted_blob"]],
        Endpoint::GetAppointment => vec![vec!["locator"]],
        _ => vec![],
    }
}

/// Every field (leaf or object) of the documented request, as a path.
fn all_fields(ep: Endpoint) -> Vec<Vec<&'static str>> {
    match ep {
        Endpoint::Register => vec![vec!["user_id"]],
        Endpoint::AddAppointment => vec![
            vec!["appointment"],
            vec!["appointment", "locator"],
            vec!["appointment", "encrypted_blob"],
            vec!["appointment", "to_self_delay"],
            vec!["signature"],
        ],
        Endpoint::GetAppointment => vec![vec!["locator"], vec!["signature"]],
        Endpoint::GetSubscriptionInfo => vec![vec!["signature"]],
        Endpoint::Ping => vec![],
    }
}

fn get_mut<'a>(v: &'a mut Value, path: &[&str]) -> Option<&'a mut Value> {
    let mut cur = v;
    for p in path {
        cur = cur.as_object_mut()?.get_mut(*p)?;
    }
    Some(cur)
}

fn parent_mut<'a>(v: &'a mut Value, path: &[&str]) -> Option<&'a mut Map<String, Value>> {
    let (_, init) = path.split_last()?;
    let mut cur = v;
    for p in init {
        cur = cur.as_object_mut()?.get_mut(*p)?;
    }
    cur.as_object_mut()
}

fn escape_all(v: &Value, out: &mut String) {
    match v {
        Value::String(s) => {
            out.push('"');
            for ch in s.chars() {
                let mut b = [0u16; 2];
                for u in ch.encode_utf16(&mut b) {
                    out.push_str(&format!("\\u{:04x}", u));
                }
            }
            out.push('"');
        }
        Value::Object(m) => {
            out.push('{');
            for (i, (k, x)) in m.iter().enumerate() {
                if i > 0 {
                    out.push(',');
                }
                escape_all(&Value::String(k.clone()), out);
                out.push(':');
                escape_all(x, out);
            }
            out.push('}');
        }
        Value::Array(a) => {
            out.push('[');
            for (i, x) in a.iter().enumerate() {
                if i > 0 {
                    out.push(',');
                }
                escape_all(x, out);
            }
            out.push(']');
        }
        other => out.push_str(&other.to_string()),
    }
}

fn reversed(v: &Value) -> Value {
    match v {
        Value::Object(m) => {
            let mut n = Map::new();
            for (k, x) in m.iter().rev() {
                n.insert(k.clone(), reversed(x));
            }
            Value::Object(n)
        }
        other => other.clone(),
    }
}

fn upper_hex(v: &mut Value, ep: Endpoint) {
    for p in hex_fields(ep) {
        if let Some(Value::String(s)) = get_mut(v, &p) {
            *s = s.to_ascii_uppercase();
        }
    }
}

/// Serialises an object writing field `dup` (a path) twice.
fn with_dup(v: &Value, path: &[&str]) -> String {
    match v {
        Value::Object(m) => {
            let mut parts = vec![];
            for (k, x) in m.iter() {
                let here = !path.is_empty() && path[0] == k;
                let s = if here && path.len() > 1 { with_dup(x, &path[1..]) } else { x.to_string() };
                parts.push(format!("{}:{}", Value::String(k.clone()), s));
                if here && path.len() == 1 {
                    parts.push(format!("{}:{}", Value::String(k.clone()), s));
                }
            }
            format!("{{{}}}", parts.join(","))
        }
        other => other.to_string(),
    }
}

pub struct Built {
    pub method: String,
    pub path: String,
    pub body: Vec<u8>,
    pub chunked: bool,
    /// The request still is a valid request of the documented API with the meaning of the base request.
    pub valid: bool,
    /// Existing endpoint, right method, a content-length within the cap: the reply must be a JSON error object.
    pub json_error_required: bool,
}

/// Is the *unmutated* request acceptable to the documented HTTP API (field presence / sizes)? Requests the harness
/// generates for the internal API (e.g. empty signatures, 32-byte user ids) are not all valid HTTP requests.
fn documented_valid(ep: Endpoint, v: &Value) -> bool {
    let s = |p: &[&str]| -> Option<String> {
        let mut cur = v;
        for k in p {
            cur = cur.get(*k)?;
        }
        cur.as_str().map(|x| x.to_string())
    };
    match ep {
        Endpoint::Register => s(&["user_id"]).map(|x| x.len() == 66).unwrap_or(false),
        Endpoint::AddAppointment => {
            s(&["appointment", "locator"]).map(|x| x.len() == 32).unwrap_or(false)
                && s(&["signature"]).map(|x| !x.is_empty()).unwrap_or(false)
        }
        Endpoint::GetAppointment => {
            s(&["locator"]).map(|x| x.len() == 32).unwrap_or(false) && s(&["signature"]).map(|x| !x.is_empty()).unwrap_or(false)
        }
        Endpoint::GetSubscriptionInfo => s(&["signature"]).map(|x| !x.is_empty()).unwrap_or(false),
        Endpoint::Ping => true,
    }
}

pub fn build(ep: Endpoint, base: &Value, m: &HttpMut) -> Built {
    let mut method = ep.method().to_string();
    let mut path = format!("/{}", ep.path());
    let mut v = base.clone();
    let mut chunked = false;
    let mut endpoint_ok = true;
    let fields = all_fields(ep);
    let hexes = hex_fields(ep);
    let mut body: Option<Vec<u8>> = None;
    let mut valid = m.preserving();
    match m {
        HttpMut::Plain => {}
        HttpMut::Whitespace => {
            let pretty = serde_json::to_string_pretty(&v).unwrap();
            body = Some(format!("  \r\n\t{}\n \t", pretty).into_bytes());
        }
        HttpMut::ExtraField => {
            if let Some(o) = v.as_object_mut() {
                o.insert("memo".into(), json!({"a": [1, 2, {"b": null}], "c": "x"}));
            }
            if let Some(Value::Object(o)) = v.get_mut("appointment") {
                o.insert("extra".into(), json!(7));
            }
        }
        HttpMut::Reorder => v = reversed(&v),
        HttpMut::UpperHex => upper_hex(&mut v, ep),
        HttpMut::Escaped => {
            let mut s = String::new();
            escape_all(&v, &mut s);
            body = Some(s.into_bytes());
        }
        HttpMut::Drop(n) => {
            if fields.is_empty() {
                valid = true;
            } else {
                let p = &fields[*n as usize % fields.len()];
                if let Some(o) = parent_mut(&mut v, p) {
                    o.remove(*p.last().unwrap());
                }
            }
        }
        HttpMut::Dup(n) => {
            if fields.is_empty() {
                valid = true;
            } else {
                let p = &fields[*n as usize % fields.len()];
                body = Some(with_dup(&v, p).into_bytes());
            }
        }
        HttpMut::Retype(n, kind) => {
            if fields.is_empty() {
                valid = true;
            } else {
                let p = &fields[*n as usize % fields.len()];
                if let Some(x) = get_mut(&mut v, p) {
                    let mut k = *kind % 12;
                    loop {
                        let nv = match k {
                            0 => Value::Null,
                            1 => json!(true),
                            2 => json!(12),
                            3 => json!("12"),
                            4 => json!([]),
                            5 => json!({}),
                            // long strings (the parser's complaint quotes them): 2-byte characters after 0..3 ASCII ones,
                            // 3-byte ones, plain ASCII
                            6..=9 => json!(format!("{}{}", &"abc"[..(k as usize - 6)], "\u{e9}".repeat(200))),
                            10 => json!(format!("x{}", "\u{20ac}".repeat(150))),
                            _ => json!("z".repeat(400)),
                        };
                        // same JSON type as the original is no retyping; a string where a hex string was is NonHex's job
                        let same = std::mem::discriminant(&nv) == std::mem::discriminant(x);
                        if !same {
                            *x = nv;
                            break;
                        }
                        k = if k >= 6 { 0 } else { (k + 1) % 6 };
                    }
                }
            }
        }
        HttpMut::Resize(delta) => {
            let target: Option<Vec<&str>> = match ep {
                Endpoint::Register => Some(vec!["user_id"]),
                Endpoint::AddAppointment => Some(vec!["appointment", "locator"]),
                Endpoint::GetAppointment => Some(vec!["locator"]),
                _ => None,
            };
            match target {
                None => valid = true,
                Some(p) => {
                    if let Some(Value::String(s)) = get_mut(&mut v, &p) {
                        let cur = s.len() / 2;
                        let mut new = if *delta == 0 { 0 } else { (cur as i64 + *delta as i64).max(0) as usize };
                        if new == cur {
                            new = cur + 1;
                        }
                        // (a malformed 32-byte user id grown to 33 bytes may happen to be a valid key, i.e. a valid request)
                        let right_size = if ep == Endpoint::Register { 33 } else { 16 };
                        if new == right_size {
                            new += 1;
                        }
                        let mut t = s.clone();
                        t.truncate(new * 2);
                        while t.len() < new * 2 {
                            t.push_str("ab");
                        }
                        *s = t;
                    }
                }
            }
        }
        HttpMut::OddHex(n) | HttpMut::NonHex(n) => {
            if hexes.is_empty() {
                valid = true;
            } else {
                let p = &hexes[*n as usize % hexes.len()];
                if let Some(Value::String(s)) = get_mut(&mut v, p) {
                    if matches!(m, HttpMut::OddHex(_)) {
                        s.push('a');
                    } else if s.is_empty() {
                        s.push_str("zz");
                    } else {
                        let i = (*n as usize * 7) % s.len();
                        s.replace_range(i..i + 1, "g");
                    }
                }
            }
        }
        HttpMut::EmptyString(n) => {
            let strs: Vec<Vec<&str>> = fields
                .iter()
                .filter(|p| *p.last().unwrap() == "signature" || *p.last().unwrap() == "locator" || *p.last().unwrap() == "user_id")
                .cloned()
                .collect();
            if strs.is_empty() {
                valid = true;
            } else {
                let p = &strs[*n as usize % strs.len()];
                if let Some(x) = get_mut(&mut v, p) {
                    *x = json!("");
                }
            }
        }
        HttpMut::Oversize(extra) => {
            if ep == Endpoint::Ping {
                valid = true;
            } else {
                let mut s = v.to_string();
                let want = ep.cap() + *extra as usize;
                while s.len() < want {
                    s.push(' ');
                }
                body = Some(s.into_bytes());
            }
        }
        HttpMut::NoLength => {
            if ep == Endpoint::Ping {
                valid = true;
            } else {
                chunked = true;
            }
        }
        HttpMut::Method(k) => {
            let all = ["GET", "PUT", "DELETE", "PATCH", "HEAD", "OPTIONS", "POST"];
            let mut i = *k as usize % all.len();
            if all[i] == method {
                i = (i + 1) % all.len();
            }
            method = all[i].to_string();
            endpoint_ok = false;
        }
        HttpMut::Path(k) => {
            path = match k % 6 {
                0 => format!("/{}x", ep.path()),
                1 => format!("/v2/{}", ep.path()),
                2 => format!("/{}", ep.path().to_ascii_uppercase()),
                // (trailing extra segments are served as the endpoint itself by the router: lenient, not a violation)
                3 => format!("/x/{}", ep.path()),
                4 => "/".to_string(),
                _ => format!("/{}", &ep.path()[..ep.path().len() - 1]),
            };
            endpoint_ok = false;
        }
        HttpMut::Raw(seed, len) => {
            if ep == Endpoint::Ping {
                valid = true;
            } else {
                let mut r = Rng::new(crate::rng::derive(*seed as u64, "rawbody", 0));
                let n = (*len as usize).min(ep.cap());
                let mut b: Vec<u8> = (0..n).map(|_| r.below(256) as u8).collect();
                // never accidentally JSON: an unbalanced opener first (or nothing at all)
                if let Some(f) = b.first_mut() {
                    if r.chance(1, 2) {
                        *f = b'{';
                    }
                }
                body = Some(b);
            }
        }
        HttpMut::Deep(depth) => {
            if ep == Endpoint::Ping {
                valid = true;
            } else {
                let d = *depth as usize;
                let mut s = String::new();
                for _ in 0..d {
                    s.push('[');
                }
                for _ in 0..d {
                    s.push(']');
                }
                body = Some(s.into_bytes());
            }
        }
        HttpMut::Truncated(n) => {
            if ep == Endpoint::Ping {
                valid = true;
            } else {
                let s = v.to_string().into_bytes();
                // strictly shorter, so at least the closing brace is missing
                let keep = *n as usize % s.len();
                body = Some(s[..keep].to_vec());
            }
        }
        HttpMut::NumRange(k) => {
            if ep == Endpoint::Ping {
                valid = true;
            } else {
                let lit = ["4294967296", "-1", "1.5", "1e400"][*k as usize % 4];
                let s = v.to_string();
                let s = if ep == Endpoint::AddAppointment {
                    // replace the value of to_self_delay textually
                    let key = "\"to_self_delay\":";
                    match s.find(key) {
                        Some(i) => {
                            let start = i + key.len();
                            let end = s[start..].find(|c: char| c == ',' || c == '}').map(|e| start + e).unwrap_or(s.len());
                            format!("{}{}{}", &s[..start], lit, &s[end..])
                        }
                        None => s,
                    }
                } else {
                    // the only / first field becomes a number
                    let p = &fields[0];
                    let key = format!("\"{}\":", p.last().unwrap());
                    match s.find(&key) {
                        Some(i) => {
                            let start = i + key.len();
                            let end = s[start..].find(|c: char| c == ',' || c == '}').map(|e| start + e).unwrap_or(s.len());
                            format!("{}{}{}", &s[..start], lit, &s[end..])
                        }
                        None => s,
                    }
                };
                body = Some(s.into_bytes());
            }
        }
        HttpMut::TopLevel(k) => {
            if ep == Endpoint::Ping {
                valid = true;
            } else {
                body = Some(["null", "17", "\"register\"", "[]", "{}"][*k as usize % 5].as_bytes().to_vec());
            }
        }
    }
    let body = match body {
        Some(b) => b,
        None => {
            if ep == Endpoint::Ping {
                vec![]
            } else {
                v.to_string().into_bytes()
            }
        }
    };
    if valid {
        // a request that keeps its meaning is valid only if the base request is one the HTTP API documents
        valid = documented_valid(ep, base) && (ep == Endpoint::Ping || body.len() <= ep.cap());
    }
    let json_error_required = ep != Endpoint::Ping && endpoint_ok && !chunked && body.len() <= ep.cap();
    Built {
        method,
        path,
        body,
        chunked,
        valid,
        json_error_required,
    }
}

pub fn raw_request(b: &Built) -> Vec<u8> {
    let mut out = format!("{} {} HTTP/1.1\r\nhost: tower.sim\r\ncontent-type: application/json\r\n", b.method, b.path).into_bytes();
    if b.chunked {
        out.extend_from_slice(b"transfer-encoding: chunked\r\n\r\n");
        for chunk in b.body.chunks(97) {
            out.extend_from_slice(format!("{:x}\r\n", chunk.len()).as_bytes());
            out.extend_from_slice(chunk);
            out.extend_from_slice(b"\r\n");
        }
        out.extend_from_slice(b"0\r\n\r\n");
    } else {
        if !(b.body.is_empty() && (b.method == "GET" || b.method == "HEAD")) {
            out.extend_from_slice(format!("content-length: {}\r\n", b.body.len()).as_bytes());
        }
        out.extend_from_slice(b"\r\n");
        out.extend_from_slice(&b.body);
    }
    out
}

// ---------------------------------------------------------------------------------------------
// Per-thread state: the front of the running tower, the mutation armed for the next API call, what was observed.

#[derive(Clone, Debug)]
pub struct HttpViolation {
    pub clause: &'static str,
    pub detail: String,
}

#[derive(Clone, Debug, Default)]
pub struct HttpSeen {
    /// status of the last HTTP exchange (0: none / no reply)
    pub status: u16,
    pub refused_expected: bool,
    pub violations: Vec<HttpViolation>,
    pub requests: u64,
}

thread_local! {
    pub static FRONT: RefCell<Option<HttpFront>> = const { RefCell::new(None) };
    pub static ARMED: RefCell<Option<HttpMut>> = const { RefCell::new(None) };
    pub static SEEN: RefCell<HttpSeen> = RefCell::new(HttpSeen::default());
    pub static STATS: RefCell<std::collections::BTreeMap<String, u64>> = const { RefCell::new(std::collections::BTreeMap::new()) };
}

pub const REFUSED_SENTINEL: &str = "HTTP-REFUSED-AS-EXPECTED";

pub fn is_refused_sentinel<T>(r: &Result<T, ApiErr>) -> bool {
    matches!(r, Err(e) if e.code == tonic::Code::Aborted && e.msg == REFUSED_SENTINEL)
}

fn sentinel<T>() -> Result<T, ApiErr> {
    Err(ApiErr {
        code: tonic::Code::Aborted,
        msg: REFUSED_SENTINEL.to_string(),
    })
}

pub fn install_front(api: Arc<InternalAPI>) {
    let f = HttpFront::new(api);
    FRONT.with(|c| *c.borrow_mut() = Some(f));
}

pub fn remove_front() {
    let f = FRONT.with(|c| c.borrow_mut().take());
    drop(f);
    ARMED.with(|c| *c.borrow_mut() = None);
}

pub fn arm(m: HttpMut) {
    ARMED.with(|c| *c.borrow_mut() = Some(m));
    SEEN.with(|c| {
        let mut s = c.borrow_mut();
        s.status = 0;
        s.refused_expected = false;
    });
}

pub fn take_armed() -> Option<HttpMut> {
    if FRONT.with(|c| c.borrow().is_none()) {
        return None;
    }
    ARMED.with(|c| c.borrow_mut().take())
}

fn flag(clause: &'static str, detail: String) {
    SEEN.with(|c| c.borrow_mut().violations.push(HttpViolation { clause, detail }));
}

fn count(key: &str) {
    STATS.with(|c| *c.borrow_mut().entry(key.to_string()).or_insert(0) += 1);
}

const DOCUMENTED_CODES: [u8; 11] = [1, 2, 3, 4, 5, 6, 7, 32, 35, 36, 65];

fn show(body: &[u8]) -> String {
    let s = String::from_utf8_lossy(body);
    if s.len() > 200 {
        format!("{}... ({} bytes)", &s[..s.char_indices().take(200).last().map(|(i, _)| i).unwrap_or(0)], body.len())
    } else {
        s.to_string()
    }
}

/// Sends the request of `ep` with body `base` under mutation `m` and judges everything C15 says about the exchange that
/// does not need the reference model. Returns the reply for a request that kept its meaning (judged by the model as if
/// the base operation had been made), the sentinel for one that was refused as it had to be.
pub fn http_call<T: serde::de::DeserializeOwned>(ep: Endpoint, base: Value, m: HttpMut) -> Result<T, ApiErr> {
    let built = build(ep, &base, &m);
    let raw = raw_request(&built);
    let what = format!("{} {} ({:?}, {} body bytes)", built.method, built.path, m, built.body.len());
    let outcome = FRONT.with(|c| c.borrow().as_ref().expect("HARNESS: no http front").request(raw));
    SEEN.with(|c| c.borrow_mut().requests += 1);
    count(&format!("mut:{}", format!("{:?}", m).split('(').next().unwrap_or("?")));
    let reply = match outcome {
        HttpOutcome::Reply(r) => r,
        HttpOutcome::Timeout => {
            flag("no_answer", format!("{what}: no reply within 60 s"));
            return sentinel();
        }
        HttpOutcome::Closed(e) => {
            flag("no_answer", format!("{what}: connection closed without a reply ({e})"));
            return sentinel();
        }
    };
    SEEN.with(|c| {
        let mut s = c.borrow_mut();
        s.status = reply.status;
        s.refused_expected = !built.valid;
    });
    count(&format!("status:{}", reply.status));
    let status = reply.status;
    if status >= 500 && status != 503 {
        flag("server_error", format!("{what}: answered {status}: {}", show(&reply.body)));
        return sentinel();
    }
    if status == 200 {
        if !built.valid {
            flag("invalid_request_accepted", format!("{what}: answered 200: {}", show(&reply.body)));
            return sentinel();
        }
        if ep == Endpoint::Ping {
            // documented: empty 200
            return serde_json::from_value(Value::Null).map_err(|_| ApiErr { code: tonic::Code::Ok, msg: String::new() });
        }
        // The documented wire format, checked on the raw JSON independently of the serde adapters the tower (and the
        // client) share: a change in an adapter would otherwise be invisible to a harness that parses with the same types.
        if let Some(why) = documented_shape_violation(ep, &base, &reply.body) {
            flag("reply_not_documented", format!("{what}: 200 body is not the documented reply ({why}): {}", show(&reply.body)));
            return sentinel();
        }
        return match serde_json::from_slice::<T>(&reply.body) {
            Ok(t) => Ok(t),
            Err(e) => {
                flag("reply_not_documented", format!("{what}: 200 body is not the documented reply ({e}): {}", show(&reply.body)));
                sentinel()
            }
        };
    }
    if !(400..500).contains(&status) && status != 503 {
        flag("undocumented_status", format!("{what}: answered {status}: {}", show(&reply.body)));
        return sentinel();
    }
    // an error answer
    let parsed: Option<(String, u64)> = serde_json::from_slice::<Value>(&reply.body).ok().and_then(|v| {
        let o = v.as_object()?;
        Some((o.get("error")?.as_str()?.to_string(), o.get("error_code")?.as_u64()?))
    });
    if built.json_error_required {
        match &parsed {
            None => {
                flag("error_not_json", format!("{what}: {status} body is not a JSON error object: {}", show(&reply.body)));
                return sentinel();
            }
            Some((msg, code)) => {
                if *code == 255 {
                    flag("unexpected_error_code", format!("{what}: {status} with the catch-all code 255: {msg}"));
                    return sentinel();
                }
                if *code > 255 || !DOCUMENTED_CODES.contains(&(*code as u8)) {
                    flag("undocumented_error_code", format!("{what}: {status} with error code {code}: {msg}"));
                    return sentinel();
                }
                count(&format!("code:{code}"));
            }
        }
    }
    if !built.valid {
        return sentinel();
    }
    // a valid request that the tower refuses for a reason of its own: hand the reason to the model
    let (msg, code) = match parsed {
        Some(p) => p,
        None => {
            flag("error_not_json", format!("{what}: {status} body is not a JSON error object: {}", show(&reply.body)));
            return sentinel();
        }
    };
    let tcode = match (status, code) {
        (401, 7) => tonic::Code::Unauthenticated,
        (404, 36) => tonic::Code::NotFound,
        (400, 35) => tonic::Code::AlreadyExists,
        (400, 65) => tonic::Code::ResourceExhausted,
        (503, 32) => tonic::Code::Unavailable,
        (400, 5) => tonic::Code::InvalidArgument,
        _ => {
            flag(
                "valid_request_refused",
                format!("{what}: a well-formed request was answered {status} / error code {code}: {msg}"),
            );
            return sentinel();
        }
    };
    Err(ApiErr { code: tcode, msg })
}

pub fn take_seen() -> HttpSeen {
    SEEN.with(|c| {
        let mut s = c.borrow_mut();
        let out = s.clone();
        s.violations.clear();
        out
    })
}

pub fn take_stats() -> std::collections::BTreeMap<String, u64> {
    STATS.with(|c| std::mem::take(&mut *c.borrow_mut()))
}


fn is_hex(s: &str, bytes: Option<usize>) -> bool {
    s.len() % 2 == 0 && s.chars().all(|c| c.is_ascii_hexdigit() && !c.is_ascii_uppercase()) && bytes.map(|b| s.len() == 2 * b).unwrap_or(true)
}

/// Checks a 200 reply against the API documentation (field names, JSON types, hex encodings, transaction ids in the usual
/// display byte order, status strings). Returns what is wrong.
fn documented_shape_violation(ep: Endpoint, request: &Value, body: &[u8]) -> Option<String> {
    if ep == Endpoint::Ping {
        return None;
    }
    let v: Value = match serde_json::from_slice(body) {
        Ok(v) => v,
        Err(e) => return Some(format!("not JSON: {e}")),
    };
    let o = v.as_object()?;
    let num = |k: &str| -> Result<u64, String> {
        o.get(k).and_then(|x| x.as_u64()).filter(|n| *n <= u32::MAX as u64).ok_or(format!("`{k}` is not a 32-bit unsigned number"))
    };
    let st = |k: &str| -> Result<String, String> { o.get(k).and_then(|x| x.as_str()).map(|s| s.to_string()).ok_or(format!("`{k}` is not a string")) };
    let r: Result<(), String> = (|| {
        match ep {
            Endpoint::Register => {
                let uid = st("user_id")?;
                if Some(uid.as_str()) != request.get("user_id").and_then(|x| x.as_str()).map(|s| s.to_ascii_lowercase()).as_deref() {
                    return Err("`user_id` is not the requester's id in hex".into());
                }
                num("available_slots")?;
                num("subscription_start")?;
                num("subscription_expiry")?;
                st("subscription_signature")?;
            }
            Endpoint::AddAppointment => {
                let loc = st("locator")?;
                let want = request.get("appointment").and_then(|a| a.get("locator")).and_then(|x| x.as_str()).map(|s| s.to_ascii_lowercase());
                if Some(loc) != want {
                    return Err("`locator` is not the appointment's locator in hex".into());
                }
                num("start_block")?;
                st("signature")?;
                num("available_slots")?;
                num("subscription_expiry")?;
            }
            Endpoint::GetAppointment => {
                let status = st("status")?;
                let a = o.get("appointment").and_then(|x| x.as_object()).ok_or("`appointment` is not an object")?;
                let s = |k: &str| -> Result<String, String> {
                    a.get(k).and_then(|x| x.as_str()).map(|s| s.to_string()).ok_or(format!("`appointment.{k}` is not a string"))
                };
                match status.as_str() {
                    "being_watched" => {
                        if !is_hex(&s("locator")?, Some(16)) || !is_hex(&s("encrypted_blob")?, None) {
                            return Err("locator / encrypted_blob are not lower-case hex".into());
                        }
                        a.get("to_self_delay").and_then(|x| x.as_u64()).ok_or("`appointment.to_self_delay` is not a number")?;
                    }
                    "dispute_responded" => {
                        let d = s("dispute_txid")?;
                        let p = s("penalty_txid")?;
                        let raw = s("penalty_rawtx")?;
                        if !is_hex(&d, Some(32)) || !is_hex(&p, Some(32)) || !is_hex(&raw, None) {
                            return Err("txids / raw transaction are not lower-case hex".into());
                        }
                        let tx: bitcoin::Transaction = bitcoin::consensus::deserialize(&hex::decode(&raw).map_err(|e| e.to_string())?)
                            .map_err(|e| format!("`penalty_rawtx` is not a transaction: {e}"))?;
                        if tx.compute_txid().to_string() != p {
                            return Err(format!("`penalty_txid` {p} is not the id of `penalty_rawtx` ({}) in the usual byte order", tx.compute_txid()));
                        }
                        if tx.input.first().map(|i| i.previous_output.txid.to_string()) != Some(d.clone()) {
                            return Err(format!("`dispute_txid` {d} is not the transaction the penalty spends, in the usual byte order"));
                        }
                    }
                    other => return Err(format!("status `{other}` is not a documented status")),
                }
            }
            Endpoint::GetSubscriptionInfo => {
                num("available_slots")?;
                num("subscription_expiry")?;
                let l = o.get("locators").and_then(|x| x.as_array()).ok_or("`locators` is not an array")?;
                if !l.iter().all(|x| x.as_str().map(|s| is_hex(s, Some(16))).unwrap_or(false)) {
                    return Err("`locators` are not 16-byte lower-case hex strings".into());
                }
            }
            Endpoint::Ping => {}
        }
        Ok(())
    })();
    r.err()
}
