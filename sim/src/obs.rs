//! Observation of the tower's sqlite file through a second, read-only connection.

use bitcoin::hashes::{sha256, Hash, HashEngine};
use rusqlite::{Connection, OpenFlags};
use std::path::Path;

#[derive(Clone, Debug, PartialEq, Eq)]
pub struct UserRow {
    pub user_id: Vec<u8>,
    pub available: u32,
    pub start: u32,
    pub expiry: u32,
}

#[derive(Clone, Debug, PartialEq, Eq)]
pub struct ApptRow {
    pub uuid: Vec<u8>,
    pub locator: Vec<u8>,
    pub blob: Vec<u8>,
    pub tsd: u32,
    pub sig: String,
    pub start_block: u32,
    pub user_id: Vec<u8>,
}

#[derive(Clone, Debug, PartialEq, Eq)]
pub struct TrackerRow {
    pub uuid: Vec<u8>,
    pub dispute: Vec<u8>,
    pub penalty: Vec<u8>,
    pub height: u32,
    pub confirmed: bool,
}

#[derive(Clone, Debug, PartialEq, Eq, Default)]
pub struct DbDump {
    pub users: Vec<UserRow>,
    pub appointments: Vec<ApptRow>,
    pub trackers: Vec<TrackerRow>,
    pub last_known_block: Option<Vec<u8>>,
    pub keys: Vec<(i64, String)>,
    /// Rows violating a declared foreign key (PRAGMA foreign_key_check).
    pub fk_violations: usize,
}

pub struct DbReader {
    conn: Connection,
}

impl DbReader {
    pub fn open(path: &Path) -> Self {
        let conn = Connection::open_with_flags(path, OpenFlags::SQLITE_OPEN_READ_ONLY).expect("open ro db");
        DbReader { conn }
    }

    /// Are the tower's tables there yet? (A crash during the very first start can leave an empty file.)
    pub fn has_schema(&self) -> bool {
        self.conn
            .query_row(
                "SELECT COUNT(*) FROM sqlite_master WHERE type='table' AND name IN ('users','appointments','trackers','last_known_block','keys')",
                [],
                |r| r.get::<_, i64>(0),
            )
            .map(|n| n == 5)
            .unwrap_or(false)
    }

    pub fn dump(&self) -> DbDump {
        let c = &self.conn;
        let mut d = DbDump::default();
        {
            let mut s = c
                .prepare("SELECT user_id, available_slots, subscription_start, subscription_expiry FROM users ORDER BY user_id")
                .unwrap();
            let rows = s
                .query_map([], |r| {
                    Ok(UserRow {
                        user_id: r.get(0)?,
                        available: r.get(1)?,
                        start: r.get(2)?,
                        expiry: r.get(3)?,
                    })
                })
                .unwrap();
            d.users = rows.map(|r| r.unwrap()).collect();
        }
        {
            let mut s = c
                .prepare("SELECT UUID, locator, encrypted_blob, to_self_delay, user_signature, start_block, user_id FROM appointments ORDER BY UUID")
                .unwrap();
            let rows = s
                .query_map([], |r| {
                    Ok(ApptRow {
                        uuid: r.get(0)?,
                        locator: r.get(1)?,
                        blob: r.get(2)?,
                        tsd: r.get(3)?,
                        sig: r.get(4)?,
                        start_block: r.get(5)?,
                        user_id: r.get(6)?,
                    })
                })
                .unwrap();
            d.appointments = rows.map(|r| r.unwrap()).collect();
        }
        {
            let mut s = c
                .prepare("SELECT UUID, dispute_tx, penalty_tx, height, confirmed FROM trackers ORDER BY UUID")
                .unwrap();
            let rows = s
                .query_map([], |r| {
                    Ok(TrackerRow {
                        uuid: r.get(0)?,
                        dispute: r.get(1)?,
                        penalty: r.get(2)?,
                        height: r.get(3)?,
                        confirmed: r.get(4)?,
                    })
                })
                .unwrap();
            d.trackers = rows.map(|r| r.unwrap()).collect();
        }
        d.last_known_block = c
            .query_row("SELECT block_hash FROM last_known_block WHERE id=0", [], |r| r.get(0))
            .ok();
        {
            let mut s = c.prepare("SELECT id, key FROM keys ORDER BY id").unwrap();
            let rows = s.query_map([], |r| Ok((r.get(0)?, r.get(1)?))).unwrap();
            d.keys = rows.map(|r| r.unwrap()).collect();
        }
        {
            let mut s = c.prepare("PRAGMA foreign_key_check").unwrap();
            let mut rows = s.query([]).unwrap();
            let mut n = 0;
            while let Ok(Some(_)) = rows.next() {
                n += 1;
            }
            d.fk_violations = n;
        }
        d
    }
}

impl DbDump {
    /// Canonical digest of the durable state, ignoring nothing.
    pub fn digest(&self) -> [u8; 32] {
        let mut e = sha256::Hash::engine();
        let put = |e: &mut sha256::HashEngine, b: &[u8]| {
            e.input(&(b.len() as u64).to_le_bytes());
            e.input(b);
        };
        for u in &self.users {
            put(&mut e, b"U");
            put(&mut e, &u.user_id);
            put(&mut e, &u.available.to_le_bytes());
            put(&mut e, &u.start.to_le_bytes());
            put(&mut e, &u.expiry.to_le_bytes());
        }
        for a in &self.appointments {
            put(&mut e, b"A");
            put(&mut e, &a.uuid);
            put(&mut e, &a.locator);
            put(&mut e, &a.blob);
            put(&mut e, &a.tsd.to_le_bytes());
            put(&mut e, a.sig.as_bytes());
            put(&mut e, &a.start_block.to_le_bytes());
            put(&mut e, &a.user_id);
        }
        for t in &self.trackers {
            put(&mut e, b"T");
            put(&mut e, &t.uuid);
            put(&mut e, &t.dispute);
            put(&mut e, &t.penalty);
            put(&mut e, &t.height.to_le_bytes());
            put(&mut e, &[t.confirmed as u8]);
        }
        put(&mut e, b"L");
        put(&mut e, self.last_known_block.as_deref().unwrap_or(&[]));
        for (id, k) in &self.keys {
            put(&mut e, b"K");
            put(&mut e, &id.to_le_bytes());
            put(&mut e, k.as_bytes());
        }
        sha256::Hash::from_engine(e).to_byte_array()
    }
}
