//! Concurrent engine: a prepared state (sequential prefix) followed by 2-4 simulated threads (chain thread, API
//! threads, environment thread) released together under the baton scheduler.
//!
//! Oracles:
//!  * C10: the outcome (replies, final durable state, set of transactions the node accepted from the tower) equals the
//!    outcome of some sequential order of the same operations *run on the same real code* from the same prefix;
//!  * C11: no deadlock (decided by the scheduler's enabled-set), no panic from repository code, and the tower still
//!    serves a request and a block afterwards (liveness probe);
//!  * C12: with a node outage injected at a given RPC, nothing is dropped, the API says unavailable while the outage is
//!    noticed, and the tower resumes by itself once the node is back.

use std::collections::{BTreeMap, BTreeSet};
use std::panic::{catch_unwind, AssertUnwindSafe};
use std::sync::{Arc, Mutex};

use bitcoin::hashes::Hash;
use bitcoin::{Transaction, Txid};
use serde::{Deserialize, Serialize};

use teos::api::internal::InternalAPI;
use teos_common::appointment::{Appointment, Locator};
use teos_common::cryptography;

use crate::events::{Event, EventLog};
use crate::exec::{install_panic_hook, scratch_dir, PanicInfo, LAST_PANIC};
use crate::node::{FetchFault, SimNode, Universe, Verdict};
use crate::obs::DbReader;
use crate::ops::{Blob, Op, Sig, TowerCfg, TxRef};
use crate::sched::{Sched, SchedAbort, SchedResult, Strategy};
use crate::tower::{self, TowerCtx};

#[derive(Serialize, Deserialize, Clone, Debug, PartialEq, Eq)]
pub struct Scenario {
    pub property: String,
    pub seed: u64,
    pub cfg: TowerCfg,
    /// Executed one at a time before the threads are released.
    pub prefix: Vec<Op>,
    /// threads[0] is the chain thread (Poll and node operations), the others are API / environment threads.
    pub threads: Vec<Vec<Op>>,
    /// Node outage injected at the n-th RPC issued after the prefix (C12).
    pub down_at_rpc: Option<u64>,
    pub down_at_bs: Option<u64>,
}

/// One step of a sequential reference order: operation `i` of thread `t`; `at = Some(k)` = executed by the chain
/// thread right after the k-th chain event (block connected / disconnected) of the next Poll in the order, i.e. between
/// two chain events, which the scheduler can also produce.
#[derive(Clone, Copy, Debug, PartialEq, Eq)]
pub struct Step {
    pub t: usize,
    pub i: usize,
    pub at: Option<usize>,
}

type BoundaryHook = Box<dyn FnMut(usize) + Send>;
static BOUNDARY: Mutex<Option<BoundaryHook>> = Mutex::new(None);
static BOUNDARY_COUNT: std::sync::atomic::AtomicUsize = std::sync::atomic::AtomicUsize::new(0);

/// Called by the post-marker listener after every chain event.
pub fn on_chain_event_boundary() {
    let k = BOUNDARY_COUNT.fetch_add(1, std::sync::atomic::Ordering::SeqCst) + 1;
    let mut g = BOUNDARY.lock().unwrap_or_else(|e| e.into_inner());
    if let Some(h) = g.as_mut() {
        h(k);
    }
}

#[derive(Serialize, Deserialize, Clone, Debug, PartialEq, Eq)]
pub enum StratSpec {
    Random(u64),
    Pct { depth: u32, seed: u64 },
    Replay(Vec<u32>),
}

/// Builds requests from operations (shared by every thread; pure functions of the universe).
#[derive(Clone)]
pub struct Req {
    pub uni: Universe,
}

impl Req {
    pub fn locator(&self, d: u32) -> Locator {
        Locator::new(self.uni.dispute(d).compute_txid())
    }
    pub fn pk(&self, u: u32) -> Vec<u8> {
        bitcoin::secp256k1::PublicKey::from_secret_key(&bitcoin::secp256k1::Secp256k1::new(), &self.uni.user_sk(u))
            .serialize()
            .to_vec()
    }
    pub fn tx_of(&self, t: &TxRef) -> Transaction {
        match t {
            TxRef::Dispute(d) => self.uni.dispute(*d),
            TxRef::DisputeAlt(d) => self.uni.dispute_alt(*d),
            TxRef::Penalty { d, v, len } => self.uni.penalty(*d, *v, *len),
            TxRef::Filler(n) => self.uni.filler(*n).0,
        }
    }
    pub fn blob(&self, d: u32, blob: &Blob) -> Vec<u8> {
        let dtxid = self.uni.dispute(d).compute_txid();
        match blob {
            Blob::Valid { v, len } => cryptography::encrypt(&self.uni.penalty(d, *v, *len), &dtxid).unwrap(),
            Blob::Garbage { len, salt } => {
                let mut r = crate::rng::Rng::new(crate::rng::derive(self.uni.seed, "garbage", ((*salt as u64) << 32) | *len as u64));
                r.bytes(*len)
            }
            Blob::Empty => vec![],
            Blob::BadTx { len } => vec![0xAB; (*len).max(17)],
            Blob::OtherKey { v, len, d2 } => {
                cryptography::encrypt(&self.uni.penalty(d, *v, *len), &self.uni.dispute(*d2).compute_txid()).unwrap()
            }
        }
    }
    pub fn sign(&self, u: u32, msg: &[u8], sig: &Sig) -> String {
        let who = match sig {
            Sig::OtherUser(u2) => *u2,
            _ => u,
        };
        let s = cryptography::sign(msg, &self.uni.user_sk(who));
        match sig {
            Sig::Good | Sig::OtherUser(_) => s,
            Sig::GoodUpper => s.to_ascii_uppercase(),
            Sig::OtherMessage(_) => cryptography::sign(b"another message", &self.uni.user_sk(u)),
            Sig::Truncated(n) => s[..(*n as usize % s.len())].to_string(),
            Sig::Flip(i) => {
                let mut b = s.into_bytes();
                let i = *i as usize % b.len();
                b[i] = if b[i] == b'y' { b'b' } else { b'y' };
                String::from_utf8(b).unwrap()
            }
            Sig::NonZbase32 => format!("0l!{}", &s[3..]),
            Sig::Empty => String::new(),
        }
    }
}

// C08 under concurrency: the start block of a receipt is the tower's height when the request entered its critical section
// (acquired the locator-cache lock, which block processing holds for a whole block).
static CACHE_PROBE: std::sync::Mutex<Option<(usize, Arc<teos::watcher::Watcher>)>> = std::sync::Mutex::new(None);
static STAMP_MISMATCH: std::sync::Mutex<Vec<String>> = std::sync::Mutex::new(Vec::new());
thread_local! {
    static CACHE_LOCK_HEIGHT: std::cell::Cell<Option<u32>> = const { std::cell::Cell::new(None) };
}

pub fn set_cache_probe(p: Option<(usize, Arc<teos::watcher::Watcher>)>) {
    *CACHE_PROBE.lock().unwrap_or_else(|e| e.into_inner()) = p;
}

/// Called by the scheduler right after a simulated thread acquired a mutex.
pub fn on_after_lock(mutex_id: usize) {
    let g = CACHE_PROBE.lock().unwrap_or_else(|e| e.into_inner());
    if let Some((id, w)) = g.as_ref() {
        if *id == mutex_id {
            let h = w.verif_height();
            CACHE_LOCK_HEIGHT.with(|c| c.set(Some(h)));
        }
    }
}

fn take_stamp_mismatch() -> Option<String> {
    let mut g = STAMP_MISMATCH.lock().unwrap_or_else(|e| e.into_inner());
    let r = g.first().cloned();
    g.clear();
    r
}

/// Executes one API / node operation; returns a normalised description of the reply.
pub fn exec_plain(req: &Req, api: &Arc<InternalAPI>, node: &SimNode, op: &Op) -> String {
    match op {
        Op::Register { u } => match tower::api_register(api, req.pk(*u)) {
            Ok(r) => format!("ok slots={} expiry-start={}", r.available_slots, r.subscription_expiry.wrapping_sub(r.subscription_start)),
            Err(e) => format!("err {:?}", e.code),
        },
        Op::Add { u, d, blob, tsd, sig } => {
            let loc = req.locator(*d);
            let b = req.blob(*d, blob);
            let app = Appointment::new(loc, b.clone(), *tsd);
            let s = req.sign(*u, &app.to_vec(), sig);
            CACHE_LOCK_HEIGHT.with(|c| c.set(None));
            match tower::api_add(api, loc.to_vec(), b, *tsd, s) {
                Ok(r) => {
                    if let Some(h) = CACHE_LOCK_HEIGHT.with(|c| c.get()) {
                        if r.start_block != h {
                            STAMP_MISMATCH.lock().unwrap_or_else(|e| e.into_inner()).push(format!(
                                "add(user {u}, dispute {d}): receipt says start_block {} but the tower was at height {h} when the request entered its critical section",
                                r.start_block
                            ));
                        }
                    }
                    format!("ok slots={}", r.available_slots)
                }
                Err(e) => format!("err {:?}", e.code),
            }
        }
        Op::Get { u, d, sig } => {
            let loc = req.locator(*d);
            let s = req.sign(*u, format!("get appointment {loc}").as_bytes(), sig);
            match tower::api_get(api, loc.to_vec(), s) {
                Ok(r) => format!("ok status={}", r.status),
                Err(e) => format!("err {:?}", e.code),
            }
        }
        Op::SubInfo { u, sig } => {
            let s = req.sign(*u, b"get subscription info", sig);
            match tower::api_subinfo(api, s) {
                Ok(r) => format!("ok slots={} n={}", r.available_slots, r.locators.len()),
                Err(e) => format!("err {:?}", e.code),
            }
        }
        Op::Mine { txs } => {
            let resolved: Vec<Transaction> = txs.iter().map(|t| req.tx_of(t)).collect();
            let mut st = node.lock();
            for t in txs {
                if let TxRef::Filler(n) = t {
                    st.roots.insert(req.uni.filler(*n).1);
                }
            }
            let mut inc: Vec<Transaction> = vec![];
            for tx in resolved {
                if st.minable(&tx, &inc) {
                    inc.push(tx);
                }
            }
            st.mine(inc);
            "mined".into()
        }
        Op::Reorg { depth, branch } => {
            let resolved: Vec<Vec<Transaction>> = branch.iter().map(|b| b.iter().map(|t| req.tx_of(t)).collect()).collect();
            let mut st = node.lock();
            let height = st.height();
            let depth = (*depth).min(height.saturating_sub(2)).max(1);
            let fork = height - depth;
            let mut returned: Vec<Transaction> = Vec::new();
            for h in (fork + 1)..=height {
                returned.extend(st.block_at(h).clone().txdata.into_iter().skip(1));
            }
            st.active.truncate(fork as usize + 1);
            let old_mempool = std::mem::take(&mut st.mempool);
            st.mine_rebuild_only();
            let mut branch = resolved;
            while (branch.len() as u32) < depth + 1 {
                branch.push(vec![]);
            }
            for txs in branch {
                let mut inc: Vec<Transaction> = vec![];
                for tx in txs {
                    if st.minable(&tx, &inc) {
                        inc.push(tx);
                    }
                }
                st.mine(inc);
            }
            let mut c = returned;
            c.extend(old_mempool);
            st.readmit(c);
            *st.fired.entry("F5_reorg").or_insert(0) += 1;
            "reorged".into()
        }
        Op::NodeDown => {
            {
                let mut st = node.lock();
                st.faults.down = true;
                st.faults.flavour = (st.rpc_count % 5) as u8;
            }
            "down".into()
        }
        Op::NodeUp => {
            node.lock().faults.down = false;
            "up".into()
        }
        Op::Precious { txs } => {
            let resolved: Vec<Transaction> = txs.iter().map(|t| req.tx_of(t)).collect();
            node.lock().precious_sibling(resolved);
            "precious".into()
        }
        Op::WorseTip => {
            // the next poll of THIS thread (the chain thread) is answered with an equal-work sibling of the tip
            let bh = node.lock().side_block_hash();
            crate::node::BEST_OVERRIDE.with(|c| c.set(Some(bh)));
            "worse-tip".into()
        }
        Op::NodeUpThenDownAtBs { calls } => {
            let mut st = node.lock();
            st.faults.down = false;
            if !st.faults.no_more_outages {
                st.faults.down_at_bs = Some(st.bs_count + *calls as u64);
            }
            "up-for-a-moment".into()
        }
        Op::NodeUpThenDownAfter { rpcs } => {
            let mut st = node.lock();
            st.faults.down = false;
            if !st.faults.no_more_outages {
                st.faults.down_at_rpc = Some(st.rpc_count + *rpcs as u64);
            }
            "up-for-a-moment".into()
        }
        Op::NodeUpBehind { k } => {
            let mut st = node.lock();
            st.fall_behind(*k);
            st.faults.down = false;
            "up-behind".into()
        }
        Op::Evict(t) => {
            node.lock().evict(&req.tx_of(t).compute_txid());
            "evicted".into()
        }
        Op::PolicyInvalid(t) => {
            let txid = req.tx_of(t).compute_txid();
            let mut st = node.lock();
            if !st.has_tx(&txid) {
                st.policy_invalid.insert(txid);
            }
            "marked".into()
        }
        Op::FetchFault { nth, persistent } => {
            let mut st = node.lock();
            st.faults.fetch_calls = 0;
            st.faults.fetch_fault = Some((*nth as u64, if *persistent { FetchFault::Persistent } else { FetchFault::Transient }));
            "armed".into()
        }
        _ => "skipped".into(),
    }
}

#[derive(Clone, Debug, PartialEq, Eq, Serialize)]
pub struct Projection {
    /// Per thread, per operation: normalised reply.
    pub replies: Vec<Vec<String>>,
    /// (user id, available slots, expiry)
    pub users: Vec<(String, u32, u32)>,
    /// (uuid, sha256(blob) prefix, to_self_delay, has tracker, tracker penalty txid)
    pub records: Vec<(String, String, u32, bool, String)>,
    /// Transactions the node accepted from the tower (sendrawtransaction -> ok) or refused, by txid.
    pub submitted_ok: BTreeSet<String>,
}

pub struct ConcResult {
    pub projection: Projection,
    pub sched: Option<SchedResult>,
    pub aborts: Vec<PanicInfo>,
    pub live: Result<(), String>,
    pub rpc_log: Vec<(String, Option<Txid>, Verdict)>,
    pub unavailable_ok: bool,
    pub fired: BTreeMap<String, u64>,
    pub blocks_seen: Vec<(bitcoin::BlockHash, u32)>,
    pub node_tip_height: u32,
    pub missing_penalties: Vec<String>,
    /// Chain events (blocks connected + disconnected) delivered during the threads phase.
    pub chain_events: usize,
    /// RPCs / block-source calls issued during the threads phase (for outage placement).
    pub rpcs_in_phase: u64,
    pub bs_in_phase: u64,
    /// Was the node still down when the run got stuck?
    pub node_down_when_stuck: bool,
    pub replies_during_outage_ok: bool,
    /// C08: a receipt whose start block is not the height at which the request was accepted.
    pub stamp_mismatch: Option<String>,
    /// C04: a tracker recorded as confirmed at a height that is not the height of the block holding its penalty.
    pub conf_mismatch: Option<String>,
    /// C02: a penalty handed to the node after the (only) owner of its appointment had been removed.
    pub late_submission: Option<String>,
}

fn project(ctx: &TowerCtx, replies: Vec<Vec<String>>, log: &EventLog, from: usize, duration: u32, base_height: u32) -> Projection {
    let db = DbReader::open(&ctx.db_path).dump();
    // Height stamps race with the block being connected by at most one block (a registration served while a block is
    // connected may be stamped with the height before or after it): the expiry is projected onto the number of
    // subscription periods it represents, which is what registrations and renewals add up.
    let users = db
        .users
        .iter()
        .map(|u| {
            let periods = if duration >= 3 {
                ((u.expiry.saturating_sub(base_height)) as f64 / duration as f64).round() as u32
            } else {
                u.expiry
            };
            (hex::encode(&u.user_id), u.available, periods)
        })
        .collect();
    let records = db
        .appointments
        .iter()
        .map(|a| {
            let t = db.trackers.iter().find(|t| t.uuid == a.uuid);
            (
                hex::encode(&a.uuid),
                hex::encode(&bitcoin::hashes::sha256::Hash::hash(&a.blob).to_byte_array()[..8]),
                a.tsd,
                t.is_some(),
                // the penalty and whether the tower has it recorded as confirmed (heights are not compared: they race with
                // the block being connected by one)
                t.map(|t| {
                    format!(
                        "{}{}",
                        hex::encode(&bitcoin::hashes::sha256::Hash::hash(&t.penalty).to_byte_array()[..8]),
                        if t.confirmed { ":confirmed" } else { ":unconfirmed" }
                    )
                })
                .unwrap_or_default(),
            )
        })
        .collect();
    let mut submitted_ok = BTreeSet::new();
    for e in log.since(from) {
        if let Event::Rpc { method: "sendrawtransaction", txid: Some(t), verdict: Verdict::Ok } = e {
            submitted_ok.insert(t.to_string());
        }
    }
    Projection {
        replies,
        users,
        records,
        submitted_ok,
    }
}

/// Liveness probe: a fresh user registers, hands an appointment, its dispute is mined and the tower must respond.
fn liveness_probe(req: &Req, ctx: &mut TowerCtx, node: &SimNode, n_users: u32, n_disputes: u32) -> Result<(), String> {
    let r = catch_unwind(AssertUnwindSafe(|| {
        node.lock().faults.down = false;
        (ctx.poll)();
        let u = n_users + 7;
        let d = n_disputes + 7;
        node.lock().roots.insert(req.uni.fund_outpoint(d));
        let r1 = exec_plain(req, &ctx.api, node, &Op::Register { u });
        if !r1.starts_with("ok") {
            return Err(format!("probe registration refused: {r1}"));
        }
        let r2 = exec_plain(
            req,
            &ctx.api,
            node,
            &Op::Add { u, d, blob: Blob::Valid { v: 0, len: 0 }, tsd: 1, sig: Sig::Good },
        );
        if !r2.starts_with("ok") {
            return Err(format!("probe appointment refused: {r2}"));
        }
        exec_plain(req, &ctx.api, node, &Op::Mine { txs: vec![TxRef::Dispute(d)] });
        (ctx.poll)();
        let r3 = exec_plain(req, &ctx.api, node, &Op::Get { u, d, sig: Sig::Good });
        if r3 != "ok status=2" {
            return Err(format!("probe breach not responded: {r3}"));
        }
        Ok(())
    }));
    match r {
        Ok(x) => x,
        Err(_) => {
            let info = LAST_PANIC.with(|p| p.borrow_mut().take());
            Err(format!(
                "probe panicked: {}",
                info.map(|i| format!("{}: {}", crate::exec::normalise_location(&i.location), crate::exec::first_line(&i.message)))
                    .unwrap_or_default()
            ))
        }
    }
}

pub fn entity_counts(sc: &Scenario) -> (u32, u32) {
    let mut all: Vec<Op> = sc.prefix.clone();
    for t in sc.threads.iter() {
        all.extend(t.iter().cloned());
    }
    crate::exec::entity_counts(&all)
}

/// Runs the scenario. `order`: None = concurrently under `strategy`; Some(list of (thread, op index)) = sequentially.
pub fn run_scenario(sc: &Scenario, strategy: Option<Strategy>, order: Option<&[Step]>, sched_seed: u64, probe: bool) -> ConcResult {
    // Fresh thread per execution: std caches hash-map keys per thread.
    let sc2 = sc.clone();
    let order2: Option<Vec<Step>> = order.map(|o| o.to_vec());
    std::thread::Builder::new()
        .stack_size(16 << 20)
        .spawn(move || run_scenario_here(&sc2, strategy, order2.as_deref(), sched_seed, probe))
        .unwrap()
        .join()
        .unwrap_or_else(|_| {
            eprintln!("HARNESS ERROR: scenario thread died");
            std::process::exit(2)
        })
}

fn run_scenario_here(sc: &Scenario, strategy: Option<Strategy>, order: Option<&[Step]>, sched_seed: u64, probe: bool) -> ConcResult {
    install_panic_hook();
    set_cache_probe(None);
    let _ = take_stamp_mismatch();
    crate::seed_os_randomness(crate::rng::derive(sc.seed, "os", 0));
    let dir = scratch_dir();
    let log = EventLog::new();
    let uni = Universe { seed: sc.seed };
    let req = Req { uni: uni.clone() };
    let node = SimNode::new(log.clone(), sc.cfg.start_height, sc.cfg.txindex);
    let (nu, nd) = entity_counts(sc);
    {
        let mut st = node.lock();
        for d in 0..nd + 8 {
            st.roots.insert(uni.fund_outpoint(d));
        }
    }
    {
        // no crashes in this engine: the crash points only mark, in the event log, when a purge of users became durable
        let log2 = log.clone();
        let db_path2 = dir.join("teos_db.sql3");
        teos_common::verif::set_crash_callback(Some(Arc::new(move |site: &'static str| {
            if site == "tower::batch_remove_users:before_commit" {
                // what the last committed state holds right before the purge becomes durable (a second connection reads
                // the state before the open transaction)
                let rows: Vec<String> = DbReader::open(&db_path2).dump().appointments.iter().map(|a| hex::encode(&a.uuid)).collect();
                log2.push(Event::Note(format!("purge_precommit:{}", rows.join(","))));
            }
            if site == "tower::batch_remove_users:after_commit" {
                log2.push(Event::Note("users_removed".into()));
            }
        })));
    }
    let aborts: Arc<Mutex<Vec<PanicInfo>>> = Arc::new(Mutex::new(vec![]));
    let res = catch_unwind(AssertUnwindSafe(|| {
        tower::run_tower(&dir, &node, &sc.cfg, &log, false, |ctx| {
            for op in sc.prefix.iter() {
                match op {
                    Op::Poll => (ctx.poll)(),
                    other => {
                        exec_plain(&req, &ctx.api, &node, other);
                    }
                }
            }
            let ev_from = log.len();
            // what the tower held when the concurrent phase began (C12: none of it may silently disappear)
            let held_before = DbReader::open(&ctx.db_path).dump().appointments;
            let rpc_base = node.lock().rpc_count;
            let bs_base = node.lock().bs_count;
            if let Some(n) = sc.down_at_rpc {
                node.lock().faults.down_at_rpc = Some(rpc_base + n);
            }
            if let Some(n) = sc.down_at_bs {
                node.lock().faults.down_at_bs = Some(bs_base + n);
            }
            let mut replies: Vec<Vec<String>> = sc.threads.iter().map(|t| vec![String::new(); t.len()]).collect();
            let mut sched_res = None;
            let mut unavailable_ok = true;
            match order {
                Some(order) => {
                    let shared: Arc<Mutex<Vec<Vec<String>>>> = Arc::new(Mutex::new(replies.clone()));
                    let mut queued: Vec<Step> = vec![];
                    for st in order {
                        if st.at.is_some() {
                            queued.push(*st);
                            continue;
                        }
                        let op = &sc.threads[st.t][st.i];
                        let r = match op {
                            Op::Poll => {
                                // operations placed between two chain events of this poll
                                let todo: Vec<Step> = std::mem::take(&mut queued);
                                {
                                    let api = ctx.api.clone();
                                    let node2 = node.clone();
                                    let req2 = req.clone();
                                    let out = shared.clone();
                                    let ops: Vec<Vec<Op>> = sc.threads.clone();
                                    BOUNDARY_COUNT.store(0, std::sync::atomic::Ordering::SeqCst);
                                    *BOUNDARY.lock().unwrap_or_else(|e| e.into_inner()) = Some(Box::new(move |k: usize| {
                                        for s in todo.iter().filter(|s| s.at == Some(k)) {
                                            let r = exec_plain(&req2, &api, &node2, &ops[s.t][s.i]);
                                            out.lock().unwrap_or_else(|e| e.into_inner())[s.t][s.i] = r;
                                        }
                                    }));
                                }
                                (ctx.poll)();
                                *BOUNDARY.lock().unwrap_or_else(|e| e.into_inner()) = None;
                                "polled".to_string()
                            }
                            other => exec_plain(&req, &ctx.api, &node, other),
                        };
                        shared.lock().unwrap_or_else(|e| e.into_inner())[st.t][st.i] = r;
                    }
                    replies = shared.lock().unwrap_or_else(|e| e.into_inner()).clone();
                }
                None => {
                    let n_threads = sc.threads.len();
                    let sched = Sched::new(strategy.clone().unwrap(), sched_seed, n_threads, 20_000, false);
                    if sc.property == "C12" && sc.seed % 2 == 0 {
                        // half of the outage scenarios: condition variables may wake up early without a notification
                        sched.set_early_timed_wakeups(crate::rng::derive(
                            sc.seed,
                            "early-wake",
                            sc.down_at_rpc.unwrap_or(0) ^ (sc.down_at_bs.unwrap_or(0) << 20),
                        ));
                    }
                    sched.name_mutex(ctx.reachable.0.id(), "bitcoind_reachable");
                    sched.name_mutex(ctx.reachable.1.id(), "bitcoind_reachable_cv");
                    sched.name_mutex(ctx.dbm_mutex_id, "dbm");
                    for (n, id) in ctx
                        .gatekeeper
                        .verif_mutex_ids()
                        .into_iter()
                        .chain(ctx.watcher.verif_mutex_ids())
                        .chain(ctx.responder.verif_mutex_ids())
                    {
                        sched.name_mutex(id, n);
                        if n == "watcher.locator_cache" {
                            set_cache_probe(Some((id, ctx.watcher.clone())));
                        }
                    }
                    for (i, t) in sc.threads.iter().enumerate() {
                        let kinds: Vec<&str> = t.iter().map(|o| o.kind()).collect();
                        sched.set_thread_name(i, &kinds.join(","));
                    }
                    teos_common::verif::set_sync_hooks(Some(sched.clone()));
                    {
                        let s2 = sched.clone();
                        crate::hooks::set_rpc_yield(Some(Arc::new(move |_site: &'static str| {
                            if Sched::managed() {
                                s2.yield_now();
                            }
                        })));
                    }
                    let shared_replies: Arc<Mutex<Vec<Vec<String>>>> = Arc::new(Mutex::new(replies.clone()));
                    let served_unreachable: Arc<Mutex<Vec<String>>> = Arc::new(Mutex::new(vec![]));
                    // number of calls the node had served when a poll failed against a node that was down throughout
                    let noticed_at: Arc<Mutex<Option<u64>>> = Arc::new(Mutex::new(None));
                    // The chain thread is inside a poll. A poll whose LAST call failed can still end as a success (the block
                    // sync library swallows a failed block download: root of the open C03 finding) and flag the node
                    // reachable while it is down -- the tower has then not noticed that outage, so a request overlapping such
                    // a poll is not judged by the flag-based clause.
                    let poll_in_progress = Arc::new(std::sync::atomic::AtomicBool::new(false));
                    let mut handles = vec![];
                    for (ti, ops) in sc.threads.iter().enumerate().skip(1) {
                        let api = ctx.api.clone();
                        let node2 = node.clone();
                        let req2 = req.clone();
                        let sched2 = sched.clone();
                        let ops = ops.clone();
                        let out = shared_replies.clone();
                        let reachable2 = ctx.reachable.clone();
                        let served2 = served_unreachable.clone();
                        let noticed2 = noticed_at.clone();
                        let log3 = log.clone();
                        let polling2 = poll_in_progress.clone();
                        let judge_unavailable = sc.property == "C12";
                        let aborts2 = aborts.clone();
                        handles.push(
                            std::thread::Builder::new()
                                .stack_size(8 << 20)
                                .spawn(move || {
                                    LAST_PANIC.with(|p| *p.borrow_mut() = None);
                                    let r = catch_unwind(AssertUnwindSafe(|| {
                                        sched2.enter(ti);
                                        for (i, op) in ops.iter().enumerate() {
                                            sched2.yield_now();
                                            if let Op::WaitNodeDown { max } = op {
                                                let mut n = 0;
                                                while !node2.lock().faults.down && n < *max {
                                                    sched2.yield_now();
                                                    n += 1;
                                                }
                                            }
                                            if let Op::Yield { n } = op {
                                                for _ in 0..*n {
                                                    sched2.yield_now();
                                                }
                                            }
                                            // C12: a public request that finds the node flagged unreachable is answered
                                            // 'unavailable'. The flag can only come back after the node has answered a call,
                                            // so a request made while it is down, during which the node stays down and serves
                                            // nothing, cannot have found it up at any instant.
                                            let is_request = matches!(op, Op::Register { .. } | Op::Add { .. } | Op::Get { .. } | Op::SubInfo { .. });
                                            // One atomic snapshot: the scheduling point of the flag's lock lies BEFORE the
                                            // guard is obtained; flag, node state and the "a poll has failed" mark are then
                                            // read with no scheduling point in between (the node and the mark are plain std
                                            // mutexes).
                                            let mut noticed_now = false;
                                            let before = if judge_unavailable && is_request {
                                                let g = reachable2.0.lock().unwrap_or_else(|e| e.into_inner());
                                                let flag = *g;
                                                let snap = {
                                                    let st = node2.lock();
                                                    // Independent of the tower's own flag: a poll that began and ended with the
                                                    // node down and unanswered has failed, so the tower HAS noticed this outage;
                                                    // until the node answers a call again nothing can tell the tower otherwise.
                                                    noticed_now = st.faults.down
                                                        && *noticed2.lock().unwrap_or_else(|e| e.into_inner()) == Some(st.served_calls);
                                                    let flag = flag || polling2.load(std::sync::atomic::Ordering::SeqCst);
                                                    (flag, st.faults.down, st.served_calls)
                                                };
                                                drop(g);
                                                Some(snap)
                                            } else {
                                                None
                                            };
                                            let r = exec_plain(&req2, &api, &node2, op);
                                            if noticed_now {
                                                let st = node2.lock();
                                                let (_, _, served) = before.unwrap();
                                                if st.faults.down && st.served_calls == served && r != "err Unavailable" {
                                                    served2.lock().unwrap_or_else(|e| e.into_inner()).push(format!(
                                                        "{} was answered '{}' although a poll had failed in this outage (the tower had noticed it) and the node answered no call between that poll and the end of the request",
                                                        op.kind(),
                                                        r.chars().take(60).collect::<String>()
                                                    ));
                                                }
                                            }
                                            if let Some((flag, down, served)) = before {
                                                let st = node2.lock();
                                                if !flag && down && st.faults.down && st.served_calls == served && r != "err Unavailable" {
                                                    served2.lock().unwrap_or_else(|e| e.into_inner()).push(format!(
                                                        "{} was answered '{}' although the node was flagged unreachable before the request and answered no call until it returned",
                                                        op.kind(),
                                                        r.chars().take(60).collect::<String>()
                                                    ));
                                                }
                                            }
                                            if let Op::Get { u, d, .. } = op {
                                                if r == "ok status=2" {
                                                    // (pushed right after the reply, with no scheduling point in between)
                                                    log3.push(Event::Note(format!("get_responded:{u}:{d}")));
                                                }
                                            }
                                            out.lock().unwrap_or_else(|e| e.into_inner())[ti][i] = r;
                                        }
                                    }));
                                    if let Err(p) = r {
                                        if p.downcast_ref::<SchedAbort>().is_none() {
                                            if let Some(i) = LAST_PANIC.with(|p| p.borrow_mut().take()) {
                                                aborts2.lock().unwrap_or_else(|e| e.into_inner()).push(i);
                                            }
                                        }
                                    }
                                    sched2.exit(ti);
                                })
                                .unwrap(),
                        );
                    }
                    let controller = {
                        let s = sched.clone();
                        std::thread::spawn(move || s.run())
                    };
                    // this thread is the chain thread
                    LAST_PANIC.with(|p| *p.borrow_mut() = None);
                    let r = catch_unwind(AssertUnwindSafe(|| {
                        sched.enter(0);
                        for (i, op) in sc.threads[0].iter().enumerate() {
                            sched.yield_now();
                            if let Op::WaitNodeUp { max } = op {
                                let mut n = 0;
                                while (node.lock().faults.down || node.lock().faults.down_at_rpc.is_some() || node.lock().faults.down_at_bs.is_some()) && n < *max {
                                    sched.yield_now();
                                    n += 1;
                                }
                                // an outage that has not started by now will not start at all
                                let mut st = node.lock();
                                st.faults.down_at_rpc = None;
                                st.faults.down_at_bs = None;
                                st.faults.down = false;
                                st.faults.no_more_outages = true;
                            }
                            if let Op::Yield { n } = op {
                                for _ in 0..*n {
                                    sched.yield_now();
                                }
                            }
                            let r = match op {
                                Op::Poll => {
                                    let (down0, served0) = {
                                        let st = node.lock();
                                        (st.faults.down, st.served_calls)
                                    };
                                    poll_in_progress.store(true, std::sync::atomic::Ordering::SeqCst);
                                    (ctx.poll)();
                                    poll_in_progress.store(false, std::sync::atomic::Ordering::SeqCst);
                                    let st = node.lock();
                                    if down0 && st.faults.down && st.served_calls == served0 {
                                        *noticed_at.lock().unwrap_or_else(|e| e.into_inner()) = Some(served0);
                                        drop(st);
                                        *node.lock().fired.entry("F1_poll_failed_node_down_throughout").or_insert(0) += 1;
                                    }
                                    "polled".to_string()
                                }
                                other => exec_plain(&req, &ctx.api, &node, other),
                            };
                            shared_replies.lock().unwrap_or_else(|e| e.into_inner())[0][i] = r;
                        }
                    }));
                    if let Err(p) = r {
                        if p.downcast_ref::<SchedAbort>().is_none() {
                            if let Some(i) = LAST_PANIC.with(|p| p.borrow_mut().take()) {
                                aborts.lock().unwrap_or_else(|e| e.into_inner()).push(i);
                            }
                        }
                    }
                    sched.exit(0);
                    let sr = controller.join().unwrap();
                    for h in handles {
                        let _ = h.join();
                    }
                    teos_common::verif::set_sync_hooks(None);
                    crate::hooks::set_rpc_yield(None);
                    replies = shared_replies.lock().unwrap_or_else(|e| e.into_inner()).clone();
                    if !served_unreachable.lock().unwrap_or_else(|e| e.into_inner()).is_empty() {
                        if std::env::var("SIM_DEBUG").is_ok() {
                            eprintln!("[conc] served while unreachable: {:?}", served_unreachable.lock().unwrap_or_else(|e| e.into_inner()));
                        }
                        unavailable_ok = false;
                    }
                    let early = sched.early_wakeups_fired();
                    if early > 0 {
                        *node.lock().fired.entry("F10_condvar_woken_early_without_notification").or_insert(0) += early;
                    }
                    sched_res = Some(sr);
                }
            }
            // C12: while the node is flagged unreachable the public API must say unavailable.
            if !*ctx.reachable.0.lock().unwrap_or_else(|e| e.into_inner()) {
                let r = exec_plain(&req, &ctx.api, &node, &Op::Register { u: nu + 3 });
                if r != "err Unavailable" {
                    unavailable_ok = false;
                }
            }
            let stuck = sched_res.as_ref().map(|s| s.stuck.is_some()).unwrap_or(false);
            let node_down_when_stuck = stuck && node.lock().faults.down;
            let rpcs_in_phase = node.lock().rpc_count - rpc_base;
            let bs_in_phase = node.lock().bs_count - bs_base;
            let had_abort = !aborts.lock().unwrap_or_else(|e| e.into_inner()).is_empty();
            // Let the tower catch up (the node is reachable again by the end of every scenario).
            let mut missing = vec![];
            let mut live = Ok(());
            // Never run tower code outside the scheduler while the node is flagged unreachable: the code under test may
            // block for real there (that is one of the things C12 looks for, inside the scheduled phase).
            let flag_ok = *ctx.reachable.0.lock().unwrap_or_else(|e| e.into_inner());
            if !stuck && flag_ok {
                let r = catch_unwind(AssertUnwindSafe(|| {
                    {
                        // no fault may fire outside the scheduled phase (the code under test could block for real)
                        let mut st = node.lock();
                        st.faults.down = false;
                        st.faults.down_at_rpc = None;
                        st.faults.down_at_bs = None;
                        // a node that came back behind its former tip has caught up by now
                        st.catch_up();
                    }
                    (ctx.poll)();
                    (ctx.poll)();
                }));
                if r.is_err() && !had_abort {
                    if let Some(i) = LAST_PANIC.with(|p| p.borrow_mut().take()) {
                        aborts.lock().unwrap_or_else(|e| e.into_inner()).push(i);
                    }
                }
            }
            let projection = project(ctx, replies, &log, ev_from, sc.cfg.duration, sc.cfg.start_height);
            if probe && !stuck && flag_ok {
                live = liveness_probe(&req, ctx, &node, nu, nd);
            } else if stuck {
                live = Err("stuck".into());
            } else if !flag_ok {
                live = Err("node still flagged unreachable after the last poll".into());
            }
            // C12 obligation: every held appointment whose dispute is on the active chain has its penalty at the node
            // (or was refused / is a tracker-less -27 case): computed by the caller from the projection + node state.
            {
                let db = DbReader::open(&ctx.db_path).dump();
                let st = node.lock();
                for a in db.appointments.iter() {
                    // dispute on active chain?
                    let mut dispute = None;
                    for d in 0..nd {
                        if req.locator(d).to_vec() == a.locator {
                            dispute = Some(d);
                        }
                    }
                    let Some(d) = dispute else { continue };
                    let dtxid = uni.dispute(d).compute_txid();
                    if !st.confirmed.contains_key(&dtxid) {
                        continue;
                    }
                    let has_tracker = db.trackers.iter().any(|t| t.uuid == a.uuid);
                    if let Ok(p) = cryptography::decrypt(&a.blob, &dtxid) {
                        let ptxid = p.compute_txid();
                        if !has_tracker && !st.has_tx(&ptxid) && st.would_send(&p) == Verdict::Ok {
                            missing.push(format!("dispute {d}: penalty {ptxid} neither tracked nor at the node although it would be accepted"));
                        }
                    }
                }
                // An appointment held before the phase that is gone now, whose dispute is confirmed and whose penalty the node
                // would take but does not have: dropped -- unless the node really refused that penalty during the phase
                // (an answer, not a transport error) or its owner is gone.
                let refused: BTreeSet<Txid> = log
                    .since(ev_from)
                    .into_iter()
                    .filter_map(|e| match e {
                        Event::Rpc { method: "sendrawtransaction", txid: Some(t), verdict } if !matches!(verdict, Verdict::Ok | Verdict::Transport) => Some(t),
                        _ => None,
                    })
                    .collect();
                for a in held_before.iter() {
                    if db.appointments.iter().any(|b| b.uuid == a.uuid) {
                        continue;
                    }
                    if !db.users.iter().any(|u| u.user_id == a.user_id) {
                        continue;
                    }
                    let Some(d) = (0..nd).find(|d| req.locator(*d).to_vec() == a.locator) else { continue };
                    let dtxid = uni.dispute(d).compute_txid();
                    if !st.confirmed.contains_key(&dtxid) {
                        continue;
                    }
                    if let Ok(p) = cryptography::decrypt(&a.blob, &dtxid) {
                        let ptxid = p.compute_txid();
                        if !refused.contains(&ptxid) && !st.has_tx(&ptxid) && st.would_send(&p) == Verdict::Ok {
                            missing.push(format!(
                                "dispute {d}: the appointment held before the outage is gone, its penalty {ptxid} was never refused by the node, is not at the node and would be accepted"
                            ));
                        }
                    }
                }
            }
            // C04 (absolute, not relative to the reference orders): once the tower is at the node's tip, a tracker recorded as
            // confirmed names the height of the block of the active chain that holds its penalty.
            let mut conf_mismatch = None;
            if !stuck && flag_ok && !had_abort {
                let db = DbReader::open(&ctx.db_path).dump();
                let st = node.lock();
                for t in db.trackers.iter().filter(|t| t.confirmed) {
                    if let Ok(p) = bitcoin::consensus::deserialize::<Transaction>(&t.penalty) {
                        let truth = st.confirmed.get(&p.compute_txid()).map(|x| x.1);
                        if truth != Some(t.height) {
                            conf_mismatch = Some(format!(
                                "tracker of penalty {} is recorded as confirmed at height {} but the penalty sits at {:?} on the active chain",
                                p.compute_txid(),
                                t.height,
                                truth
                            ));
                        }
                    }
                }
            }
            // C02 (absolute): nothing is submitted on behalf of an appointment whose owner has been removed. In the event log
            // of the phase: a sendrawtransaction of a penalty that comes after the commit of a purge, when every user who
            // submitted that penalty in this scenario is gone from the database now.
            let mut late_submission = None;
            {
                let db = DbReader::open(&ctx.db_path).dump();
                let mut owners: BTreeMap<Txid, (BTreeSet<u32>, u32)> = BTreeMap::new();
                for op in sc.prefix.iter().chain(sc.threads.iter().flatten()) {
                    if let Op::Add { u, d, blob: Blob::Valid { v, len }, sig, .. } = op {
                        let who = match sig {
                            Sig::OtherUser(u2) => *u2,
                            _ => *u,
                        };
                        let e = owners.entry(uni.penalty(*d, *v, *len).compute_txid()).or_insert((BTreeSet::new(), *d));
                        e.0.insert(who);
                    }
                }
                let mut purged_before = false;
                let mut rows_before_purge: BTreeSet<String> = BTreeSet::new();
                for e in log.since(ev_from) {
                    match e {
                        Event::Note(n) if n.starts_with("purge_precommit:") => {
                            rows_before_purge = n["purge_precommit:".len()..].split(',').filter(|x| !x.is_empty()).map(|x| x.to_string()).collect();
                        }
                        Event::Note(n) if n == "users_removed" => purged_before = true,
                        Event::Rpc { method: "sendrawtransaction", txid: Some(t), verdict } if purged_before && verdict != Verdict::Transport => {
                            if let Some((us, d)) = owners.get(&t) {
                                let any_left = us.iter().any(|u| db.users.iter().any(|r| r.user_id == req.pk(*u)));
                                if !any_left {
                                    // Was the appointment on disk when its owner was purged (the request had stored it and was
                                    // about to answer the breach: a benign overlap), or had the owner gone before the tower
                                    // even stored it?
                                    let stored = us.iter().any(|u| {
                                        let mut data = req.locator(*d).to_vec();
                                        data.extend(req.pk(*u));
                                        rows_before_purge.contains(&hex::encode(bitcoin::hashes::ripemd160::Hash::hash(&data).to_byte_array()))
                                    });
                                    late_submission = Some(format!(
                                        "{}|penalty {t} was submitted after the purge that removed its only owner(s) {us:?} had been committed",
                                        if stored { "stored_before_purge" } else { "never_stored" }
                                    ));
                                }
                            }
                        }
                        _ => {}
                    }
                }
            }
            // C02 (absolute): dispute_responded is never reported for a penalty the node has not been given and did not
            // already have. Over the whole event log: a read answered 'dispute_responded' must come after a
            // sendrawtransaction of that user's penalty that reached the node (any answer), or after the node said it has it.
            if late_submission.is_none() {
                let mut penalties: BTreeMap<(u32, u32), BTreeSet<Txid>> = BTreeMap::new();
                for op in sc.prefix.iter().chain(sc.threads.iter().flatten()) {
                    if let Op::Add { u, d, blob: Blob::Valid { v, len }, sig, .. } = op {
                        let who = match sig {
                            Sig::OtherUser(u2) => *u2,
                            _ => *u,
                        };
                        penalties.entry((who, *d)).or_default().insert(uni.penalty(*d, *v, *len).compute_txid());
                    }
                }
                let mut given: BTreeSet<Txid> = BTreeSet::new();
                for e in log.since(0) {
                    match e {
                        Event::Rpc { method: "sendrawtransaction", txid: Some(t), verdict } if verdict != Verdict::Transport => {
                            given.insert(t);
                        }
                        Event::Rpc { method: "getrawtransaction", txid: Some(t), verdict: Verdict::Ok } => {
                            given.insert(t);
                        }
                        Event::Note(n) if n.starts_with("get_responded:") => {
                            let mut it = n["get_responded:".len()..].split(':');
                            let u: u32 = it.next().and_then(|x| x.parse().ok()).unwrap_or(u32::MAX);
                            let d: u32 = it.next().and_then(|x| x.parse().ok()).unwrap_or(u32::MAX);
                            if let Some(ps) = penalties.get(&(u, d)) {
                                let st = node.lock();
                                let known = ps.iter().any(|p| given.contains(p) || st.confirmed.contains_key(p));
                                if !known && late_submission.is_none() {
                                    late_submission = Some(format!(
                                        "RESP|get_appointment of (user {u}, dispute {d}) was answered dispute_responded before the node had been given the penalty (no sendrawtransaction of it had reached the node, and the node did not have it)"
                                    ));
                                }
                            }
                        }
                        _ => {}
                    }
                }
            }
            let rpc_log: Vec<(String, Option<Txid>, Verdict)> = log
                .since(ev_from)
                .into_iter()
                .filter_map(|e| match e {
                    Event::Rpc { method, txid, verdict } => Some((method.to_string(), txid, verdict)),
                    _ => None,
                })
                .collect();
            // the blocks delivered to the listeners during the phase, net of disconnections (a node that comes back on a
            // sibling makes the tower connect it and reorganise later)
            let mut blocks_seen: Vec<(bitcoin::BlockHash, u32)> = vec![];
            for e in log.since(ev_from) {
                match e {
                    Event::BlockEnd { hash, height, .. } => blocks_seen.push((hash, height)),
                    Event::DisconnectEnd { hash, .. } => {
                        if blocks_seen.last().map(|b| b.0) == Some(hash) {
                            blocks_seen.pop();
                        }
                    }
                    _ => {}
                }
            }
            let st = node.lock();
            let fired = st.fired.iter().map(|(k, v)| (k.to_string(), *v)).collect();
            let node_tip_height = st.height();
            drop(st);
            ConcResult {
                projection,
                sched: sched_res,
                aborts: aborts.lock().unwrap_or_else(|e| e.into_inner()).clone(),
                live,
                rpc_log,
                unavailable_ok,
                fired,
                blocks_seen,
                node_tip_height,
                missing_penalties: missing,
                chain_events: log
                    .since(ev_from)
                    .iter()
                    .filter(|e| matches!(e, Event::BlockEnd { .. } | Event::DisconnectEnd { .. }))
                    .count(),
                rpcs_in_phase,
                bs_in_phase,
                node_down_when_stuck,
                replies_during_outage_ok: true,
                stamp_mismatch: take_stamp_mismatch(),
                conf_mismatch,
                late_submission,
            }
        })
    }));
    teos_common::verif::set_sync_hooks(None);
    teos_common::verif::set_crash_callback(None);
    crate::hooks::set_rpc_yield(None);
    set_cache_probe(None);
    let _ = take_stamp_mismatch();
    let _ = std::fs::remove_dir_all(&dir);
    match res {
        Ok(r) => r,
        Err(_) => {
            let info = LAST_PANIC.with(|p| p.borrow_mut().take()).unwrap_or(PanicInfo {
                location: "?".into(),
                message: "?".into(),
            });
            if info.message.starts_with("HARNESS") || info.location.starts_with("src/") {
                eprintln!("HARNESS ERROR: panic at {}: {}", info.location, info.message);
                std::process::exit(2);
            }
            ConcResult {
                projection: Projection {
                    replies: vec![],
                    users: vec![],
                    records: vec![],
                    submitted_ok: BTreeSet::new(),
                },
                sched: None,
                aborts: vec![info],
                live: Err("tower died during the prefix or boot".into()),
                rpc_log: vec![],
                unavailable_ok: true,
                fired: BTreeMap::new(),
                blocks_seen: vec![],
                node_tip_height: 0,
                missing_penalties: vec![],
                chain_events: 0,
                rpcs_in_phase: 0,
                bs_in_phase: 0,
                node_down_when_stuck: false,
                replies_during_outage_ok: true,
                stamp_mismatch: None,
                conf_mismatch: None,
                late_submission: None,
            }
        }
    }
}

/// Sequential reference orders. First every interleaving of the threads' operation lists that keeps each thread's own
/// order, the poll being one step. Then, when the chain thread is a single poll delivering `n_events` >= 2 chain events,
/// the orders in which API operations fall *between* two of those events (a block disconnection and the following
/// connection are separate chain events; requests served between them are sequential behaviour, not a race).
pub fn sequential_orders(sc: &Scenario, cap: usize, n_events: usize) -> Vec<Vec<Step>> {
    fn rec(pos: &mut Vec<usize>, lens: &[usize], cur: &mut Vec<Step>, out: &mut Vec<Vec<Step>>, cap: usize) {
        if out.len() >= cap {
            return;
        }
        if pos.iter().zip(lens).all(|(p, l)| p == l) {
            out.push(cur.clone());
            return;
        }
        for t in 0..lens.len() {
            if pos[t] < lens[t] {
                cur.push(Step { t, i: pos[t], at: None });
                pos[t] += 1;
                rec(pos, lens, cur, out, cap);
                pos[t] -= 1;
                cur.pop();
            }
        }
    }
    let lens: Vec<usize> = sc.threads.iter().map(|t| t.len()).collect();
    let mut out = vec![];
    rec(&mut vec![0; lens.len()], &lens, &mut vec![], &mut out, cap);
    let single_poll = sc.threads[0].len() == 1 && sc.threads[0][0] == Op::Poll;
    if single_poll && n_events >= 2 {
        // positions: 0 = before the poll, 1..n_events-1 = after that many chain events, n_events = after the poll
        let api: Vec<(usize, usize)> = (1..sc.threads.len())
            .flat_map(|t| (0..sc.threads[t].len()).map(move |i| (t, i)))
            .collect();
        let mut assign = vec![0usize; api.len()];
        let mut combos: Vec<Vec<usize>> = vec![];
        loop {
            // non-decreasing within a thread, at least one strictly inside
            let mut ok = assign.iter().any(|p| *p >= 1 && *p < n_events);
            for w in 0..api.len() {
                for v in 0..w {
                    if api[v].0 == api[w].0 && assign[v] > assign[w] {
                        ok = false;
                    }
                }
            }
            if ok {
                combos.push(assign.clone());
            }
            // increment
            let mut k = 0;
            loop {
                if k == assign.len() {
                    break;
                }
                assign[k] += 1;
                if assign[k] <= n_events {
                    break;
                }
                assign[k] = 0;
                k += 1;
            }
            if k == assign.len() || combos.len() > 400 {
                break;
            }
        }
        for c in combos {
            for rev in [false, true] {
                if out.len() >= cap * 6 {
                    break;
                }
                let mut idx: Vec<usize> = (0..api.len()).collect();
                if rev {
                    // other thread first at equal positions (keeps each thread's own order)
                    idx.sort_by_key(|j| (std::cmp::Reverse(api[*j].0), api[*j].1));
                }
                let mut order: Vec<Step> = vec![];
                for j in idx.iter().filter(|j| c[**j] == 0) {
                    order.push(Step { t: api[*j].0, i: api[*j].1, at: None });
                }
                for j in idx.iter().filter(|j| c[**j] >= 1 && c[**j] < n_events) {
                    order.push(Step { t: api[*j].0, i: api[*j].1, at: Some(c[*j]) });
                }
                order.push(Step { t: 0, i: 0, at: None });
                for j in idx.iter().filter(|j| c[**j] == n_events) {
                    order.push(Step { t: api[*j].0, i: api[*j].1, at: None });
                }
                if !out.contains(&order) {
                    out.push(order);
                }
                if sc.threads.len() <= 2 {
                    break;
                }
            }
        }
    }
    out
}
