//! ClientSim: the real CLN plugin (handlers of watchtower-plugin/src/main.rs, WTClient, DBM, RetryManager/Retrier,
//! net::http reply processing) run in-process on a paused tokio clock against scripted fake towers.
//!
//! * lightningd is the harness: JSON-RPC over in-memory pipes through the real `cln_plugin` runtime;
//! * the network is `SimNet` (guarded seam in net::http::request): latency, outages and every reply are scripted;
//! * fake towers hold a real signing key and build replies with the real teos_common receipt code;
//! * a kill is "drop the runtime at this instant" (only the sqlite file survives), optionally at a numbered crash point.

use std::collections::{BTreeMap, BTreeSet, VecDeque};
use std::path::{Path, PathBuf};
use std::sync::atomic::{AtomicBool, AtomicU64, Ordering};
use std::sync::{Arc, Mutex};
use std::time::Duration;

use bitcoin::secp256k1::{PublicKey, Secp256k1, SecretKey};
use serde::{Deserialize, Serialize};
use serde_json::{json, Value};
use tokio::io::{AsyncReadExt, AsyncWriteExt, DuplexStream};

use teos_common::appointment::Locator;
use teos_common::cryptography;
use teos_common::protos as common_msgs;
use teos_common::receipts::{AppointmentReceipt, RegistrationReceipt};
use teos_common::{TowerId, UserId};
use watchtower_plugin::net::http::RequestError;
use watchtower_plugin::retrier::RetryManager;
use watchtower_plugin::verif_net::{NetFuture, SimNet};
use watchtower_plugin::wt_client::WTClient;

use crate::exec::{CrashSignal, PanicInfo, LAST_PANIC};
use crate::node::Universe;

#[allow(dead_code, unused_imports, clippy::all)]
pub mod plugin_main {
    include!("/repo/watchtower-plugin/src/main.rs");

    /// The registration table of `main()`, restated (options, RPC methods, hook).
    pub fn builder<I, O>(input: I, output: O) -> Builder<Arc<Mutex<WTClient>>, I, O>
    where
        I: tokio::io::AsyncRead + Send + Unpin + 'static,
        O: tokio::io::AsyncWrite + Send + Unpin + 'static,
    {
        Builder::new(input, output)
            .with_logging(false)
            .option(WT_PORT_CONFG)
            .option(WT_MAX_RETRY_TIME_CONFIG)
            .option(WT_AUTO_RETRY_DELAY_CONFIG)
            .option(DEV_WT_MAX_RETRY_INTERVAL_CONFIG)
            .rpcmethod(constants::RPC_REGISTER_TOWER, constants::RPC_REGISTER_TOWER_DESC, register)
            .rpcmethod(
                constants::RPC_GET_REGISTRATION_RECEIPT,
                constants::RPC_GET_REGISTRATION_RECEIPT_DESC,
                get_registration_receipt,
            )
            .rpcmethod(constants::RPC_GET_APPOINTMENT, constants::RPC_GET_APPOINTMENT_DESC, get_appointment)
            .rpcmethod(
                constants::RPC_GET_APPOINTMENT_RECEIPT,
                constants::RPC_GET_APPOINTMENT_RECEIPT_DESC,
                get_appointment_receipt,
            )
            .rpcmethod(
                constants::RPC_GET_SUBSCRIPTION_INFO,
                constants::RPC_GET_SUBSCRIPTION_INFO_DESC,
                get_subscription_info,
            )
            .rpcmethod(constants::RPC_LIST_TOWERS, constants::RPC_LIST_TOWERS_DESC, list_towers)
            .rpcmethod(constants::RPC_GET_TOWER_INFO, constants::RPC_GET_TOWER_INFO_DESC, get_tower_info)
            .rpcmethod(constants::RPC_PING, constants::RPC_PING_DESC, ping)
            .rpcmethod(constants::RPC_RETRY_TOWER, constants::RPC_RETRY_TOWER_DESC, retry_tower)
            .rpcmethod(constants::RPC_ABANDON_TOWER, constants::RPC_ABANDON_TOWER_DESC, abandon_tower)
            .hook(constants::HOOK_COMMITMENT_REVOCATION, on_commitment_revocation)
    }
}

// ---------------------------------------------------------------------------------------------
// History

#[derive(Serialize, Deserialize, Clone, Debug, PartialEq, Eq, Hash)]
pub enum Reply {
    /// A correct reply, signed with the tower key.
    Accept,
    /// Connection refused / timed out.
    Refuse,
    /// API error object with this code (7 = subscription error).
    ApiError(u8),
    /// 200 with a body that is not JSON: 0 empty, 1 html, 2 invalid utf-8, 3 a 1 MB string.
    NotJson(u8),
    /// JSON of the wrong shape: 0 `{}`, 1 array, 2 fields with wrong types, 3 missing signature, 4 number overflow.
    WrongShape(u8),
    /// Well-formed reply whose signature was made with another key.
    OtherKeySignature,
    /// Signature string that cannot be decoded: 0 empty, 1 non-zbase32, 2 truncated, 3 very long.
    MalformedSignature(u8),
    /// Registration receipt that does not extend the subscription (same expiry / same slots).
    NotExtending(u8),
    /// Registration reply made out to somebody else: another user's id echoed back, with a receipt (bigger than what the
    /// client knows) that the tower validly signed for that other user.
    OtherUserReceipt,
}

#[derive(Serialize, Deserialize, Clone, Debug, PartialEq, Eq, Hash)]
pub enum COp {
    Register { t: u32 },
    /// commitment_revocation notification for commitment #c
    Revoke { c: u32 },
    /// The same notification delivered twice with both handlers in flight at once (the plugin runtime serves every request
    /// in its own task): the second is written before the first has been answered.
    RevokeTwice { c: u32 },
    /// Virtual time passes.
    Advance { secs: u32 },
    /// Replies the tower gives to its next requests (then back to its default).
    Script { t: u32, replies: Vec<Reply> },
    /// What the tower answers when nothing is scripted.
    Default { t: u32, reply: Reply },
    /// Per-request latency of the tower, in virtual milliseconds.
    Latency { t: u32, ms: u32 },
    /// The subscription at the tower lapses: it answers add_appointment with a subscription error (code 7) until it has
    /// served a registration.
    Lapse { t: u32 },
    /// The tower keeps answering add_appointment with a subscription error (code 7) whatever the client renews (its
    /// registrations are served normally), until its default is set back to accepting.
    LapseForGood { t: u32 },
    RetryTower { t: u32 },
    AbandonTower { t: u32 },
    ListTowers,
    GetTowerInfo { t: u32 },
    GetReceipt { t: u32, c: u32 },
    /// User commands that talk to the tower: getsubscriptioninfo / getappointment (the answer itself is not judged; a
    /// connection error flags the tower temporarily unreachable).
    AskTower { t: u32, c: Option<u32> },
    /// SIGKILL and restart on the same data directory.
    Kill,
}

#[derive(Serialize, Deserialize, Clone, Debug, PartialEq, Eq)]
pub struct ClientCfg {
    pub max_retry_time: u32,
    pub auto_retry_delay: u32,
    pub max_interval: u32,
    pub n_towers: u32,
}

#[derive(Serialize, Deserialize, Clone, Debug, PartialEq, Eq)]
pub struct ClientHistory {
    pub property: String,
    pub seed: u64,
    pub cfg: ClientCfg,
    pub ops: Vec<COp>,
    /// Kill at the n-th crash point (client dbm writes) counted over the whole run.
    pub crash_at: Vec<u64>,
}

impl COp {
    pub fn kind(&self) -> &'static str {
        match self {
            COp::Register { .. } => "register",
            COp::Revoke { .. } => "revoke",
            COp::RevokeTwice { .. } => "revoke_twice",
            COp::Advance { .. } => "advance",
            COp::Script { .. } => "script",
            COp::Default { .. } => "default",
            COp::Latency { .. } => "latency",
            COp::Lapse { .. } => "lapse",
            COp::LapseForGood { .. } => "lapse_for_good",
            COp::RetryTower { .. } => "retrytower",
            COp::AbandonTower { .. } => "abandontower",
            COp::ListTowers => "listtowers",
            COp::GetTowerInfo { .. } => "gettowerinfo",
            COp::GetReceipt { .. } => "getreceipt",
            COp::AskTower { .. } => "asktower",
            COp::Kill => "kill",
        }
    }
}

// ---------------------------------------------------------------------------------------------
// Fake towers and the simulated network

#[derive(Clone, Debug)]
pub struct ReqLog {
    pub at_ms: u64,
    pub tower: u32,
    pub endpoint: String,
    pub locator: Option<Vec<u8>>,
    pub reply: Reply,
    /// virtual time at which the client receives the reply
    pub delivered_ms: u64,
}

pub struct FakeTower {
    pub sk: SecretKey,
    pub other_sk: SecretKey,
    pub id: TowerId,
    pub script: VecDeque<Reply>,
    pub default: Reply,
    pub latency_ms: u32,
    pub slots: u32,
    pub start: u32,
    pub expiry: u32,
    pub registrations: u32,
    /// locators the tower acknowledged with a valid receipt
    pub accepted: BTreeSet<Vec<u8>>,
    /// since when (virtual ms) the tower has been answering everything correctly (None: it is not)
    pub healthy_since: Option<u64>,
    /// since when it has been refusing / misanswering everything by default
    pub failing_since: Option<u64>,
    /// a registration request got a non-accepting answer (renewal by the retrier may have failed for good)
    pub bad_register_reply: bool,
    /// the subscription has lapsed: add_appointment is answered with code 7 until a registration has been served
    pub lapsed: bool,
    /// the client has been told about the lapse (first code-7 answer of this episode served)
    pub lapse_told: bool,
    /// add_appointment is answered with code 7 whatever is renewed, since this virtual instant
    pub lapsed_for_good: Option<u64>,
}

pub struct NetState {
    pub towers: Vec<FakeTower>,
    pub log: Vec<ReqLog>,
    pub epoch_ms: u64,
    pub in_flight: u32,
    pub requests_without_time_advance: u32,
    pub last_request_ms: u64,
    pub hot_loop: bool,
    /// more requests than any well-behaved client sends in one history: every further answer takes 30 virtual seconds,
    /// so that the run ends (and the flooding is reported) in reasonable real time
    pub braked: bool,
}

pub struct Net {
    pub st: Mutex<NetState>,
    pub dead: AtomicBool,
}

fn now_ms() -> u64 {
    // tokio's paused clock: elapsed since the runtime started
    tokio::time::Instant::now().into_std().elapsed().as_millis() as u64;
    0
}

/// Requests served in one history before the brake engages (clean runs stay two orders of magnitude below).
const REQUEST_BRAKE: usize = 2500;

thread_local! {
    static RT_START: std::cell::Cell<Option<tokio::time::Instant>> = const { std::cell::Cell::new(None) };
}

fn virtual_ms() -> u64 {
    let start = RT_START.with(|c| c.get());
    match start {
        Some(s) => tokio::time::Instant::now().duration_since(s).as_millis() as u64,
        None => 0,
    }
}

fn http_response(status: u16, body: Vec<u8>) -> reqwest::Response {
    let r = http::Response::builder().status(status).body(body).unwrap();
    reqwest::Response::from(r)
}

impl Net {
    fn tower_index(addr: &str) -> Option<usize> {
        // addresses look like http://tower<k>:9814
        let rest = addr.strip_prefix("http://tower")?;
        rest.split(':').next()?.parse().ok()
    }

    fn answer(&self, addr: &str, endpoint: &str, body: Option<Value>) -> (Duration, Result<(u16, Vec<u8>), RequestError>) {
        let mut st = self.st.lock().unwrap_or_else(|e| e.into_inner());
        let now = st.epoch_ms + virtual_ms();
        if now == st.last_request_ms {
            st.requests_without_time_advance += 1;
            if st.requests_without_time_advance > 1000 {
                st.hot_loop = true;
            }
        } else {
            st.requests_without_time_advance = 0;
            st.last_request_ms = now;
        }
        let Some(ti) = Self::tower_index(addr).filter(|i| *i < st.towers.len()) else {
            return (Duration::ZERO, Err(RequestError::ConnectionError("unknown host".into())));
        };
        let mut reply = {
            let t = &mut st.towers[ti];
            // (a registration reply made out to somebody else waits for the next registration request)
            if endpoint != "register" && matches!(t.script.front(), Some(Reply::OtherUserReceipt) | Some(Reply::NotExtending(_))) {
                t.default.clone()
            } else {
                t.script.pop_front().unwrap_or_else(|| t.default.clone())
            }
        };
        if endpoint == "register" && matches!(reply, Reply::NotExtending(_)) && st.towers[ti].registrations == 0 {
            // there is nothing to extend yet: this is just a first registration
            reply = Reply::Accept;
        }
        if endpoint != "register" && matches!(reply, Reply::NotExtending(_) | Reply::OtherUserReceipt) {
            reply = Reply::Accept;
        }
        let mut lapsed_answer = false;
        if endpoint == "add_appointment" && reply == Reply::Accept && st.towers[ti].lapsed {
            reply = Reply::ApiError(7);
            lapsed_answer = true;
        }
        let for_good = st.towers[ti].lapsed_for_good.is_some();
        if endpoint == "add_appointment" && reply == Reply::Accept && for_good {
            reply = Reply::ApiError(7);
        }
        // (a client caught sending without letting any time pass is slowed down from then on, so that virtual time moves
        // again and the session can end and report it)
        if st.log.len() > REQUEST_BRAKE {
            st.braked = true;
        }
        let latency = Duration::from_millis(if st.braked {
            30_000
        } else if st.hot_loop {
            1000
        } else {
            st.towers[ti].latency_ms as u64
        });
        {
            let t = &mut st.towers[ti];
            if for_good {
                // keeps failing: nothing it answers meanwhile counts as recovery
                t.healthy_since = None;
            } else if lapsed_answer && !t.lapse_told {
                // From now on the client knows what to do (renew, then re-send): if the tower is otherwise healthy, the
                // recovery clock for what this made pending starts here, not when the tower last came back.
                t.lapse_told = true;
                if t.healthy_since.is_some() || (t.script.is_empty() && t.default == Reply::Accept) {
                    t.healthy_since = Some(now);
                }
            }
            if reply != Reply::Accept && !lapsed_answer {
                t.healthy_since = None;
                if endpoint == "register" {
                    t.bad_register_reply = true;
                }
            }
            if !for_good && t.script.is_empty() && t.default == Reply::Accept && t.healthy_since.is_none() && reply == Reply::Accept {
                // first correct answer after trouble
                t.healthy_since = Some(now);
            }
            if !for_good && t.script.is_empty() && t.default == Reply::Accept && reply != Reply::Accept && !lapsed_answer {
                // that was the last scripted misbehaviour
                t.healthy_since = Some(now + latency.as_millis() as u64);
            }
        }
        let mut locator = None;
        let res: Result<(u16, Vec<u8>), RequestError> = match endpoint {
            "register" => {
                let req: Option<common_msgs::RegisterRequest> = body.and_then(|b| serde_json::from_value(b).ok());
                let t = &mut st.towers[ti];
                match (&reply, req) {
                    (Reply::Refuse, _) => Err(RequestError::ConnectionError("Cannot connect to the tower. Connection refused".into())),
                    (_, None) => Ok((400, br#"{"error":"bad request","error_code":6}"#.to_vec())),
                    (r, Some(req)) => {
                        let uid = UserId::from_slice(&req.user_id).ok();
                        match (r, uid) {
                            (_, None) => Ok((400, br#"{"error":"bad user id","error_code":5}"#.to_vec())),
                            (Reply::ApiError(c), _) => Ok((400, json!({"error": "scripted error", "error_code": c}).to_string().into_bytes())),
                            (Reply::NotJson(k), _) => Ok((200, not_json(*k))),
                            (Reply::WrongShape(k), _) => Ok((200, wrong_shape(*k).to_string().into_bytes())),
                            (r, Some(uid)) => {
                                // a real tower: first registration sets, renewals add
                                let (slots, start, expiry) = match r {
                                    Reply::NotExtending(0) if t.registrations > 0 => (t.slots.saturating_add(100), t.start, t.expiry),
                                    Reply::NotExtending(_) if t.registrations > 0 => (t.slots, t.start, t.expiry.saturating_add(100)),
                                    _ => {
                                        if t.registrations == 0 {
                                            (100, 1000, 2000)
                                        } else {
                                            (t.slots.saturating_add(100), t.start, t.expiry.saturating_add(1000))
                                        }
                                    }
                                };
                                // (made out to somebody else: that user's id is echoed and the signature is good for it)
                                let uid = if *r == Reply::OtherUserReceipt {
                                    UserId(PublicKey::from_secret_key(&Secp256k1::new(), &t.other_sk))
                                } else {
                                    uid
                                };
                                let echoed = if *r == Reply::OtherUserReceipt { uid.to_vec() } else { req.user_id.clone() };
                                let mut receipt = RegistrationReceipt::new(uid, slots, start, expiry);
                                let key = if *r == Reply::OtherKeySignature { t.other_sk } else { t.sk };
                                receipt.sign(&key);
                                let mut sig = receipt.signature().unwrap();
                                if let Reply::MalformedSignature(k) = r {
                                    sig = malformed_sig(*k, &sig);
                                }
                                if matches!(r, Reply::Accept) {
                                    t.lapsed = false;
                                    t.slots = slots;
                                    t.start = start;
                                    t.expiry = expiry;
                                    t.registrations += 1;
                                }
                                let resp = common_msgs::RegisterResponse {
                                    user_id: echoed,
                                    available_slots: slots,
                                    subscription_start: start,
                                    subscription_expiry: expiry,
                                    subscription_signature: sig,
                                };
                                Ok((200, serde_json::to_vec(&resp).unwrap()))
                            }
                        }
                    }
                }
            }
            "add_appointment" => {
                let req: Option<common_msgs::AddAppointmentRequest> = body.and_then(|b| serde_json::from_value(b).ok());
                let t = &mut st.towers[ti];
                match (&reply, req) {
                    (Reply::Refuse, r) => {
                        locator = r.and_then(|r| r.appointment.map(|a| a.locator));
                        Err(RequestError::ConnectionError("Cannot connect to the tower. Connection refused".into()))
                    }
                    (_, None) => Ok((400, br#"{"error":"bad request","error_code":6}"#.to_vec())),
                    (r, Some(req)) => {
                        let app = req.appointment.clone().unwrap_or_default();
                        locator = Some(app.locator.clone());
                        match r {
                            Reply::ApiError(c) => Ok((
                                if *c == 7 { 401 } else { 400 },
                                json!({"error": "scripted error", "error_code": c}).to_string().into_bytes(),
                            )),
                            Reply::NotJson(k) => Ok((200, not_json(*k))),
                            Reply::WrongShape(k) => Ok((200, wrong_shape(*k).to_string().into_bytes())),
                            r => {
                                let start_block = 1500u32;
                                let mut receipt = AppointmentReceipt::new(req.signature.clone(), start_block);
                                let key = if *r == Reply::OtherKeySignature { t.other_sk } else { t.sk };
                                receipt.sign(&key);
                                let mut sig = receipt.signature().unwrap();
                                if let Reply::MalformedSignature(k) = r {
                                    sig = malformed_sig(*k, &sig);
                                }
                                if matches!(r, Reply::Accept | Reply::NotExtending(_)) {
                                    t.slots = t.slots.saturating_sub(1);
                                    t.accepted.insert(app.locator.clone());
                                }
                                let resp = common_msgs::AddAppointmentResponse {
                                    locator: app.locator.clone(),
                                    start_block,
                                    signature: sig,
                                    available_slots: t.slots,
                                    subscription_expiry: t.expiry,
                                };
                                Ok((200, serde_json::to_vec(&resp).unwrap()))
                            }
                        }
                    }
                }
            }
            _ => match reply {
                Reply::Refuse => Err(RequestError::ConnectionError("Cannot connect to the tower. Connection refused".into())),
                _ => Ok((200, b"{}".to_vec())),
            },
        };
        st.log.push(ReqLog {
            at_ms: now,
            tower: ti as u32,
            endpoint: endpoint.to_string(),
            locator,
            reply,
            delivered_ms: now + latency.as_millis() as u64,
        });
        (latency, res)
    }
}

fn not_json(k: u8) -> Vec<u8> {
    match k % 4 {
        0 => vec![],
        1 => b"<html><body>502 Bad Gateway</body></html>".to_vec(),
        2 => vec![0xff, 0xfe, 0x00, 0x80, b'{'],
        _ => vec![b'a'; 1 << 20],
    }
}

fn wrong_shape(k: u8) -> Value {
    match k % 5 {
        0 => json!({}),
        1 => json!([1, 2, 3]),
        2 => json!({"locator": 5, "start_block": "x", "signature": 7, "available_slots": -1, "subscription_expiry": 1.5,
                    "user_id": 1, "subscription_start": [], "subscription_signature": {}}),
        3 => json!({"locator": "00000000000000000000000000000000", "start_block": 1, "available_slots": 1, "subscription_expiry": 1,
                    "user_id": "00", "subscription_start": 1}),
        _ => json!({"locator": "00000000000000000000000000000000", "start_block": 99999999999999u64, "signature": "x",
                    "available_slots": 99999999999999u64, "subscription_expiry": 1}),
    }
}

fn malformed_sig(k: u8, good: &str) -> String {
    match k % 4 {
        0 => String::new(),
        1 => format!("0l!v2{}", &good[5..]),
        2 => good[..good.len() / 2].to_string(),
        _ => good.repeat(100),
    }
}

impl SimNet for Net {
    fn request(&self, net_addr: String, endpoint: String, _method: String, body: Option<Value>) -> NetFuture {
        if self.dead.load(Ordering::SeqCst) {
            return Box::pin(std::future::pending());
        }
        let (latency, res) = self.answer(&net_addr, &endpoint, body);
        Box::pin(async move {
            if !latency.is_zero() {
                tokio::time::sleep(latency).await;
            }
            res.map(|(status, body)| http_response(status, body))
        })
    }
}

// ---------------------------------------------------------------------------------------------
// lightningd side

pub struct Lightningd {
    to_plugin: DuplexStream,
    from_plugin: DuplexStream,
    buf: Vec<u8>,
    next_id: u64,
    pending: BTreeMap<u64, Value>,
}

impl Lightningd {
    async fn send_raw(&mut self, v: Value) {
        let mut s = v.to_string().into_bytes();
        s.extend_from_slice(b"\n\n");
        self.to_plugin.write_all(&s).await.expect("write to plugin");
    }

    /// Reads frames until one with `id` shows up (others are kept), or virtual `secs` elapse.
    async fn wait_reply(&mut self, id: u64, secs: u64) -> Option<Value> {
        if let Some(v) = self.pending.remove(&id) {
            return Some(v);
        }
        let deadline = tokio::time::Instant::now() + Duration::from_secs(secs);
        loop {
            // parse complete frames
            while let Some(pos) = self.buf.windows(2).position(|w| w == b"\n\n") {
                let frame: Vec<u8> = self.buf.drain(..pos + 2).collect();
                if let Ok(v) = serde_json::from_slice::<Value>(&frame[..pos]) {
                    if v.get("method").and_then(|m| m.as_str()) == Some("log") && std::env::var("SIM_DEBUG").is_ok() {
                        eprintln!("[plugin {}ms] {}", virtual_ms(), v.get("params").map(|p| p.to_string()).unwrap_or_default());
                    }
                    if let Some(i) = v.get("id").and_then(|i| i.as_u64()) {
                        if i == id {
                            return Some(v);
                        }
                        self.pending.insert(i, v);
                    }
                }
            }
            let mut chunk = [0u8; 65536];
            match tokio::time::timeout_at(deadline, self.from_plugin.read(&mut chunk)).await {
                Ok(Ok(0)) => return None,
                Ok(Ok(n)) => self.buf.extend_from_slice(&chunk[..n]),
                Ok(Err(_)) => return None,
                Err(_) => return None,
            }
        }
    }

    pub async fn call(&mut self, method: &str, params: Value, secs: u64) -> Option<Value> {
        self.next_id += 1;
        let id = self.next_id;
        self.send_raw(json!({"jsonrpc": "2.0", "id": id, "method": method, "params": params})).await;
        self.wait_reply(id, secs).await
    }
}

// ---------------------------------------------------------------------------------------------
// Observation of the client's sqlite file

#[derive(Clone, Debug, Default, PartialEq, Eq)]
pub struct ClientDb {
    /// tower id -> (net_addr, available_slots)
    pub towers: BTreeMap<Vec<u8>, (String, u32)>,
    /// (tower, subscription_expiry) -> (slots, start, signature)
    pub registration_receipts: BTreeMap<(Vec<u8>, u32), (u32, u32, String)>,
    /// (locator, tower) -> (start_block, user_signature, tower_signature)
    pub receipts: BTreeMap<(Vec<u8>, Vec<u8>), (u32, String, String)>,
    pub pending: BTreeSet<(Vec<u8>, Vec<u8>)>,
    pub invalid: BTreeSet<(Vec<u8>, Vec<u8>)>,
    /// locator -> (blob, to_self_delay)
    pub bodies: BTreeMap<Vec<u8>, (Vec<u8>, u32)>,
    /// tower -> (locator, recovered id)
    pub proofs: BTreeMap<Vec<u8>, (Vec<u8>, Vec<u8>)>,
    pub fk_violations: usize,
}

pub fn read_client_db(path: &Path) -> Option<ClientDb> {
    use rusqlite::{Connection, OpenFlags};
    let c = Connection::open_with_flags(path, OpenFlags::SQLITE_OPEN_READ_ONLY).ok()?;
    let n: i64 = c
        .query_row("SELECT COUNT(*) FROM sqlite_master WHERE type='table' AND name='towers'", [], |r| r.get(0))
        .ok()?;
    if n == 0 {
        return None;
    }
    let mut d = ClientDb::default();
    {
        let mut s = c.prepare("SELECT tower_id, net_addr, available_slots FROM towers").ok()?;
        let rows = s.query_map([], |r| Ok((r.get::<_, Vec<u8>>(0)?, r.get::<_, String>(1)?, r.get::<_, u32>(2)?))).ok()?;
        for r in rows.flatten() {
            d.towers.insert(r.0, (r.1, r.2));
        }
    }
    {
        let mut s = c
            .prepare("SELECT tower_id, available_slots, subscription_start, subscription_expiry, signature FROM registration_receipts")
            .ok()?;
        let rows = s
            .query_map([], |r| {
                Ok((r.get::<_, Vec<u8>>(0)?, r.get::<_, u32>(1)?, r.get::<_, u32>(2)?, r.get::<_, u32>(3)?, r.get::<_, String>(4)?))
            })
            .ok()?;
        for r in rows.flatten() {
            d.registration_receipts.insert((r.0, r.3), (r.1, r.2, r.4));
        }
    }
    {
        let mut s = c
            .prepare("SELECT locator, tower_id, start_block, user_signature, tower_signature FROM appointment_receipts")
            .ok()?;
        let rows = s
            .query_map([], |r| {
                Ok((r.get::<_, Vec<u8>>(0)?, r.get::<_, Vec<u8>>(1)?, r.get::<_, u32>(2)?, r.get::<_, String>(3)?, r.get::<_, String>(4)?))
            })
            .ok()?;
        for r in rows.flatten() {
            d.receipts.insert((r.0, r.1), (r.2, r.3, r.4));
        }
    }
    for (table, set) in [("pending_appointments", &mut d.pending), ("invalid_appointments", &mut d.invalid)] {
        let mut s = c.prepare(&format!("SELECT locator, tower_id FROM {table}")).ok()?;
        let rows = s.query_map([], |r| Ok((r.get::<_, Vec<u8>>(0)?, r.get::<_, Vec<u8>>(1)?))).ok()?;
        for r in rows.flatten() {
            set.insert(r);
        }
    }
    {
        let mut s = c.prepare("SELECT locator, encrypted_blob, to_self_delay FROM appointments").ok()?;
        let rows = s.query_map([], |r| Ok((r.get::<_, Vec<u8>>(0)?, r.get::<_, Vec<u8>>(1)?, r.get::<_, u32>(2)?))).ok()?;
        for r in rows.flatten() {
            d.bodies.insert(r.0, (r.1, r.2));
        }
    }
    {
        let mut s = c.prepare("SELECT tower_id, locator, recovered_id FROM misbehaving_proofs").ok()?;
        let rows = s.query_map([], |r| Ok((r.get::<_, Vec<u8>>(0)?, r.get::<_, Vec<u8>>(1)?, r.get::<_, Vec<u8>>(2)?))).ok()?;
        for r in rows.flatten() {
            d.proofs.insert(r.0, (r.1, r.2));
        }
    }
    {
        let mut s = c.prepare("PRAGMA foreign_key_check").ok()?;
        let mut rows = s.query([]).ok()?;
        while let Ok(Some(_)) = rows.next() {
            d.fk_violations += 1;
        }
    }
    Some(d)
}

// ---------------------------------------------------------------------------------------------
// The run

#[derive(Clone, Debug)]
pub struct CFoundC {
    pub property: &'static str,
    pub clause: String,
    pub op_index: usize,
    pub op_kind: String,
    pub detail: String,
}

#[derive(Default, Clone, Debug)]
pub struct ClientStats {
    pub ops: u64,
    pub requests: u64,
    pub virtual_secs: u64,
    pub kills: u64,
    /// kills that fired at a numbered crash point (inside a durable write)
    pub kills_at_crash_points: u64,
    pub crash_points: u64,
    pub probes: BTreeMap<String, u64>,
    pub replies_injected: BTreeMap<String, u64>,
    pub digest: u64,
    pub nontrivial: bool,
}

pub struct ClientResult {
    pub found: Vec<CFoundC>,
    pub stats: ClientStats,
}

pub struct TowerModel {
    pub registered: bool,
    pub abandoned: bool,
    /// a wrong-key acknowledgement was served to the client
    pub misbehaved_at: Option<usize>,
    pub requests_at_misbehaviour: usize,
    /// log entries before this index belong to a previous life of the tower (before it was abandoned)
    pub ignore_before: usize,
    /// a user command to this tower hit a connection error: the client then shows the tower as temporarily
    /// unreachable whatever it was before (the open C13 finding `status_stuck...`); consequences of that flip are
    /// not reported a second time
    pub user_cmd_failed: bool,
    /// last virtual instant at which the user (or a restart, or the script) did something that starts, wakes or
    /// redirects this tower's retrier
    pub touched_ms: u64,
}

struct Session<'a> {
    /// kills that fired at a numbered crash point (inside a durable write), as opposed to kills between operations
    cp_kills: Arc<AtomicU64>,
    hist: &'a ClientHistory,
    uni: Universe,
    dir: PathBuf,
    net: Arc<Net>,
    found: Vec<CFoundC>,
    stats: ClientStats,
    cur: usize,
    towers: Vec<TowerModel>,
    /// locator -> towers registered (and live) when the notification was handled
    handled: BTreeMap<Vec<u8>, BTreeSet<u32>>,
    /// notifications sent whose reply was not seen before a kill: redelivered after restart (as CLN does)
    unanswered: Vec<u32>,
    epoch_ms: u64,
    /// virtual milliseconds elapsed in the current client lifetime (read inside the runtime only)
    clock_ms: u64,
    log_digest: u64,
    rate_checked_upto: usize,
}

fn fnv(acc: u64, data: &[u8]) -> u64 {
    let mut h = acc ^ 0xcbf29ce484222325;
    for b in data {
        h ^= *b as u64;
        h = h.wrapping_mul(0x100000001b3);
    }
    h
}

enum SessionEnd {
    Done,
    Killed,
}

impl<'a> Session<'a> {
    fn probe(&mut self, name: &str) {
        *self.stats.probes.entry(name.to_string()).or_insert(0) += 1;
    }

    fn report(&mut self, property: &'static str, clause: &str, detail: String) {
        let kind = self.hist.ops.get(self.cur).map(|o| o.kind().to_string()).unwrap_or_else(|| "boot".into());
        self.found.push(CFoundC {
            property,
            clause: clause.to_string(),
            op_index: self.cur,
            op_kind: kind,
            detail,
        });
    }

    fn tower_id(&self, t: u32) -> TowerId {
        self.net.st.lock().unwrap_or_else(|e| e.into_inner()).towers[t as usize].id
    }

    fn locator_of(&self, c: u32) -> Vec<u8> {
        Locator::new(self.uni.dispute(c).compute_txid()).to_vec()
    }

    fn revocation_params(&self, c: u32) -> Value {
        let d = self.uni.dispute(c);
        let p = self.uni.penalty(c, 0, 0);
        json!({
            "channel_id": "00".repeat(32),
            "commitnum": c,
            "commitment_txid": d.compute_txid().to_string(),
            "penalty_tx": hex::encode(bitcoin::consensus::serialize(&p)),
        })
    }

    /// C05 / C18 / C14 invariants on the durable state, evaluated when no handler is in flight.
    fn check_store(&mut self, at: &str, ld_view: Option<&Value>) {
        let Some(db) = read_client_db(&self.dir.join("watchtowers_db.sql3")) else { return };
        if db.fk_violations > 0 {
            self.report("C18", "dangling_rows", format!("{at}: {} foreign key violations", db.fk_violations));
        }
        let ids: Vec<Vec<u8>> = (0..self.hist.cfg.n_towers).map(|t| self.tower_id(t).to_vec()).collect();
        // C05: exactly one of accepted / pending / invalid per (handled revocation, live tower)
        let handled = self.handled.clone();
        for (loc, towers) in handled.iter() {
            for t in towers.iter() {
                let tm = &self.towers[*t as usize];
                if tm.abandoned || tm.misbehaved_at.is_some() || !tm.registered {
                    continue;
                }
                let tid = &ids[*t as usize];
                if db.proofs.contains_key(tid) || !db.towers.contains_key(tid) {
                    continue;
                }
                let acc = db.receipts.contains_key(&(loc.clone(), tid.clone()));
                let pen = db.pending.contains(&(loc.clone(), tid.clone()));
                let inv = db.invalid.contains(&(loc.clone(), tid.clone()));
                let n = acc as u32 + pen as u32 + inv as u32;
                if n == 0 {
                    self.report(
                        "C05",
                        "appointment_lost",
                        format!("{at}: revocation {} for tower {t} is neither accepted, pending nor invalid on disk", hex::encode(loc)),
                    );
                } else if n > 1 {
                    // which two, and whether the client had been killed in the middle of a durable write before: a state
                    // transition is two commits, and a kill between them is its own (known) finding
                    let mut clause = String::from("appointment_in_two_states:");
                    clause.push_str(match (acc, pen, inv) {
                        (true, true, false) => "accepted+pending",
                        (false, true, true) => "pending+invalid",
                        (true, false, true) => "accepted+invalid",
                        _ => "all_three",
                    });
                    if self.cp_kills.load(Ordering::SeqCst) > 0 {
                        clause.push_str(":after_kill_inside_a_write");
                    }
                    self.report(
                        "C05",
                        &clause,
                        format!("{at}: revocation {} for tower {t}: accepted={acc} pending={pen} invalid={inv}", hex::encode(loc)),
                    );
                }
                if (pen || inv) && !db.bodies.contains_key(loc) {
                    self.report(
                        "C05",
                        "body_missing",
                        format!("{at}: revocation {} is pending/invalid for tower {t} but its data is not stored", hex::encode(loc)),
                    );
                }
                if acc {
                    let (start_block, user_sig, tower_sig) = db.receipts[&(loc.clone(), tid.clone())].clone();
                    let r = AppointmentReceipt::with_signature(user_sig, start_block, tower_sig);
                    if !r.verify(&self.tower_id(*t)) {
                        self.report(
                            "C14",
                            "unverifiable_receipt_stored",
                            format!("{at}: stored receipt of {} for tower {t} does not verify under the tower id", hex::encode(loc)),
                        );
                    }
                }
            }
        }
        // C14: stored registrations verify under the id the user typed
        for ((tid, expiry), (slots, start, sig)) in db.registration_receipts.iter() {
            if let Some(t) = ids.iter().position(|i| i == tid) {
                let user_id = self.client_user_id();
                if let Some(uid) = user_id {
                    let r = RegistrationReceipt::with_signature(uid, *slots, *start, *expiry, sig.clone());
                    if !r.verify(&self.tower_id(t as u32)) {
                        self.report(
                            "C14",
                            "unverifiable_registration_stored",
                            format!("{at}: stored registration receipt (expiry {expiry}) of tower {t} does not verify"),
                        );
                    }
                }
            }
        }
        // C14: a proof implies a stored offending receipt that indeed does not recover to the tower
        for (tid, (loc, recovered)) in db.proofs.iter() {
            if !db.receipts.contains_key(&(loc.clone(), tid.clone())) {
                self.report("C14", "proof_without_receipt", format!("{at}: misbehaviour proof without the offending receipt"));
            }
            if recovered == tid {
                self.report("C14", "proof_recovers_to_tower", format!("{at}: misbehaviour proof whose recovered id is the tower itself"));
            }
        }
        // C18: what listtowers reports equals what is persisted
        if let Some(v) = ld_view {
            if let Some(obj) = v.get("result").and_then(|r| r.as_object()) {
                let mem: BTreeSet<String> = obj.keys().cloned().collect();
                let disk: BTreeSet<String> = db.towers.keys().map(hex::encode).collect();
                if mem != disk {
                    self.report("C18", "tower_set_memory_vs_disk", format!("{at}: listtowers shows {} towers, the database {}", mem.len(), disk.len()));
                }
                for (k, info) in obj.iter() {
                    let Ok(tid) = hex::decode(k) else { continue };
                    if let Some((_, slots)) = db.towers.get(&tid) {
                        if info.get("available_slots").and_then(|x| x.as_u64()) != Some(*slots as u64) {
                            self.report("C18", "slots_memory_vs_disk", format!("{at}: tower {k}: listtowers and database disagree on available slots"));
                        }
                    }
                    let pend_mem: BTreeSet<String> = info
                        .get("pending_appointments")
                        .and_then(|x| x.as_array())
                        .map(|a| a.iter().filter_map(|x| x.as_str().map(|s| s.to_string())).collect())
                        .unwrap_or_default();
                    let pend_disk: BTreeSet<String> = db.pending.iter().filter(|(_, t)| *t == tid).map(|(l, _)| hex::encode(l)).collect();
                    if pend_mem != pend_disk {
                        self.report(
                            "C18",
                            "pending_memory_vs_disk",
                            format!("{at}: tower {k}: listtowers shows {} pending appointments, the database {}", pend_mem.len(), pend_disk.len()),
                        );
                    }
                    let inv_mem: BTreeSet<String> = info
                        .get("invalid_appointments")
                        .and_then(|x| x.as_array())
                        .map(|a| a.iter().filter_map(|x| x.as_str().map(|s| s.to_string())).collect())
                        .unwrap_or_default();
                    let inv_disk: BTreeSet<String> = db.invalid.iter().filter(|(_, t)| *t == tid).map(|(l, _)| hex::encode(l)).collect();
                    if inv_mem != inv_disk {
                        self.report("C18", "invalid_memory_vs_disk", format!("{at}: tower {k}: invalid appointments differ between listtowers and the database"));
                    }
                    let status = info.get("status").and_then(|x| x.as_str()).unwrap_or("");
                    if db.proofs.contains_key(&tid) && status != "misbehaving" {
                        self.report("C18", "proof_implies_misbehaving", format!("{at}: tower {k} has a stored proof but status {status}"));
                    }
                }
            }
        }
        // abandoned towers leave nothing behind
        let abandoned: Vec<usize> = self.towers.iter().enumerate().filter(|(_, tm)| tm.abandoned).map(|(t, _)| t).collect();
        for t in abandoned {
            {
                let tid = &ids[t];
                let left = db.towers.contains_key(tid)
                    || db.receipts.keys().any(|k| &k.1 == tid)
                    || db.pending.iter().any(|k| &k.1 == tid)
                    || db.invalid.iter().any(|k| &k.1 == tid)
                    || db.registration_receipts.keys().any(|k| &k.0 == tid)
                    || db.proofs.contains_key(tid);
                if left {
                    self.report("C18", "abandon_leaves_rows", format!("{at}: abandoned tower {t} still has rows in the database"));
                }
            }
        }
        let mut h = self.log_digest;
        h = fnv(h, format!("{:?}", db).as_bytes());
        self.log_digest = h;
    }

    fn client_user_id(&self) -> Option<UserId> {
        use rusqlite::{Connection, OpenFlags};
        use std::str::FromStr;
        let c = Connection::open_with_flags(self.dir.join("watchtowers_db.sql3"), OpenFlags::SQLITE_OPEN_READ_ONLY).ok()?;
        let k: String = c
            .query_row("SELECT key FROM keys ORDER BY id DESC LIMIT 1", [], |r| r.get(0))
            .ok()?;
        let sk = SecretKey::from_str(&k).ok()?;
        Some(UserId(PublicKey::from_secret_key(&Secp256k1::new(), &sk)))
    }

    /// C13: bounded liveness after recovery, truthful status, no flooding, no second retry loop.
    fn check_retry_liveness(&mut self, at: &str, view: Option<&Value>) {
        let now = self.epoch_ms + virtual_ms();
        let cfg = self.hist.cfg.clone();
        let Some(db) = read_client_db(&self.dir.join("watchtowers_db.sql3")) else { return };
        let statuses: BTreeMap<String, String> = view
            .and_then(|v| v.get("result"))
            .and_then(|r| r.as_object())
            .map(|o| {
                o.iter()
                    .map(|(k, v)| (k.clone(), v.get("status").and_then(|s| s.as_str()).unwrap_or("").to_string()))
                    .collect()
            })
            .unwrap_or_default();
        let braked = self.net.st.lock().unwrap_or_else(|e| e.into_inner()).braked;
        if braked {
            self.probe("request_brake_engaged");
        }
        for t in 0..self.towers.len() {
            let tm = &self.towers[t];
            if !tm.registered || tm.abandoned || tm.misbehaved_at.is_some() || braked {
                continue;
            }
            let tid = self.tower_id(t as u32).to_vec();
            if !db.towers.contains_key(&tid) || db.proofs.contains_key(&tid) {
                continue;
            }
            let (healthy_since, failing_since, latency, bad_reg, for_good) = {
                let st = self.net.st.lock().unwrap_or_else(|e| e.into_inner());
                let tw = &st.towers[t];
                (tw.healthy_since, tw.failing_since, tw.latency_ms as u64, tw.bad_register_reply, tw.lapsed_for_good)
            };
            let pending: Vec<Vec<u8>> = db.pending.iter().filter(|(_, x)| *x == tid).map(|(l, _)| l.clone()).collect();
            let status = statuses.get(&hex::encode(&tid)).cloned().unwrap_or_default();
            if let Some(h) = healthy_since {
                // once a tower answers properly again, everything pending is delivered within the auto-retry delay plus one
                // (jittered) back-off interval, plus the time the requests themselves take
                let bound_ms = (cfg.auto_retry_delay as u64 + 2 * cfg.max_interval as u64 + 10) * 1000 + latency * (pending.len() as u64 + 4) * 2;
                let flipped = status == "temporary_unreachable" && self.towers[t].user_cmd_failed;
                if now > h + bound_ms && !((status == "subscription_error" || flipped) && bad_reg) && !view.is_none() {
                    if !pending.is_empty() {
                        self.probe("liveness_checked");
                        self.report(
                            "C13",
                            "pending_not_delivered_after_recovery",
                            format!(
                                "{at}: tower {t} has been answering correctly for {}s (bound {}s) but {} appointment(s) are still pending (status '{status}')",
                                (now - h) / 1000,
                                bound_ms / 1000,
                                pending.len()
                            ),
                        );
                    } else {
                        self.probe("liveness_checked");
                        if std::env::var("SIM_DEBUG").is_ok() && status != "reachable" {
                            eprintln!("[dbg] {at}: tower {t} status {status}; db receipts {:?} pending {:?} invalid {:?}; view {:?}",
                                db.receipts.keys().map(|k| hex::encode(&k.0[..4])).collect::<Vec<_>>(),
                                db.pending.iter().map(|k| hex::encode(&k.0[..4])).collect::<Vec<_>>(),
                                db.invalid.iter().map(|k| hex::encode(&k.0[..4])).collect::<Vec<_>>(),
                                view.map(|v| v.to_string()));
                        }
                        if status != "reachable" && !status.is_empty() {
                            self.report(
                                "C13",
                                if status == "temporary_unreachable" {
                                    "status_stuck_temporary_unreachable_with_nothing_pending"
                                } else {
                                    "status_not_reachable_after_recovery"
                                },
                                format!("{at}: tower {t} answers correctly since {}s and nothing is pending, but it is shown as '{status}'", (now - h) / 1000),
                            );
                        }
                    }
                }
            }
            if let Some(f) = failing_since {
                // a tower that keeps failing must not be shown as reachable while data is waiting for it
                if now > f + 3000 && !pending.is_empty() && status == "reachable" {
                    self.report(
                        "C13",
                        "failing_tower_shown_reachable",
                        format!("{at}: tower {t} has been failing for {}s with {} pending appointment(s) but is shown as reachable", (now - f) / 1000, pending.len()),
                    );
                }
                if now > f + (cfg.max_retry_time as u64 + 2 * cfg.max_interval as u64 + 15) * 1000 + latency * 40 && !pending.is_empty() {
                    self.probe("gave_up_checked");
                }
            }
            // A tower that keeps failing is given up on: a retry run lasts at most the maximum retry time (plus its last
            // back-off interval and the requests in flight), and is followed by an idle period of at least the auto-retry
            // delay during which the retrier sends nothing. So any stretch of a failing episode as long as one run plus
            // one idle period shows a silence of at least half the idle period, unless the user woke the retrier up.
            if let Some(f) = failing_since.or(for_good) {
                let round_ms = latency * (2 * pending.len() as u64 + 8);
                let t_give = (cfg.max_retry_time as u64 + 2 * cfg.max_interval as u64 + 15) * 1000 + latency * 40;
                let idle_ms = cfg.auto_retry_delay as u64 * 1000;
                let window = t_give + idle_ms + 3000;
                let in_run_spacing = 1500 * cfg.max_interval as u64 + round_ms + 2000;
                let since = f.max(self.towers[t].touched_ms);
                if !pending.is_empty() && idle_ms / 2 > in_run_spacing && now > since + window && view.is_some() {
                    let st = self.net.st.lock().unwrap_or_else(|e| e.into_inner());
                    let from = now - window;
                    let mut last = from;
                    let mut widest = 0u64;
                    let mut n = 0u32;
                    for r in st.log.iter().filter(|r| {
                        r.tower == t as u32 && r.at_ms >= from && (r.endpoint == "add_appointment" || r.endpoint == "register")
                    }) {
                        widest = widest.max(r.at_ms.saturating_sub(last));
                        last = r.delivered_ms.max(r.at_ms);
                        n += 1;
                    }
                    widest = widest.max(now.saturating_sub(last));
                    drop(st);
                    self.probe("giving_up_checked_by_silence");
                    if widest < idle_ms / 2 {
                        self.report(
                            "C13",
                            "never_gives_up_on_failing_tower",
                            format!(
                                "{at}: tower {t} has been failing for {}s; in the last {}s it got {n} requests from the retrier with no silence longer than {}ms (a run is limited to {}s and is followed by {}s of idling; status '{status}')",
                                (now - f) / 1000,
                                window / 1000,
                                widest,
                                cfg.max_retry_time,
                                cfg.auto_retry_delay
                            ),
                        );
                    }
                }
            }
        }
        // flooding: requests to one tower within one virtual second
        {
            let st = self.net.st.lock().unwrap_or_else(|e| e.into_inner());
            let mut per: BTreeMap<(u32, u64), u32> = BTreeMap::new();
            for r in st.log.iter().skip(self.rate_checked_upto) {
                *per.entry((r.tower, r.at_ms / 1000)).or_insert(0) += 1;
            }
            let worst = per.iter().max_by_key(|(_, n)| **n).map(|(k, n)| (*k, *n));
            let upto = st.log.len();
            drop(st);
            self.rate_checked_upto = upto;
            if let Some(((t, sec), n)) = worst {
                let pend = db.pending.iter().filter(|(_, x)| *x == self.tower_id(t).to_vec()).count() as u32;
                if n > 20 + 2 * pend {
                    self.report(
                        "C13",
                        "tower_flooded",
                        format!("{at}: {n} requests to tower {t} within virtual second {sec} ({pend} appointments pending)"),
                    );
                }
            }
        }
        // a panic in a background task (retry manager / retrier) never reaches lightningd: look for it here
        if let Some(info) = LAST_PANIC.with(|p| p.borrow_mut().take()) {
            let loc = crate::exec::normalise_location(&info.location);
            let msg = crate::exec::first_line(&info.message);
            if loc.ends_with("retrier.rs") && msg.starts_with("assertion") {
                self.report("C13", "second_retry_loop_started", format!("{at}: panic at {loc}: {msg}"));
            } else if !msg.contains("PoisonError") {
                if loc.ends_with("retrier.rs") {
                    // the retry machinery itself died: nothing pending is ever delivered again
                    self.report("C13", "retry_task_panicked", format!("{at}: panic at {loc}: {msg}"));
                }
                self.report("C14", "client_abort", format!("{at}: panic at {loc}: {msg}"));
            }
        }
    }

    /// Wrong-key acknowledgements that the client has received by now (on either path) mark the tower in the model.
    fn scan_misbehaviour(&mut self) {
        let now = self.epoch_ms + virtual_ms();
        let st = self.net.st.lock().unwrap_or_else(|e| e.into_inner());
        let mut marks: Vec<(usize, usize)> = vec![];
        for (i, r) in st.log.iter().enumerate() {
            if r.endpoint == "add_appointment" && r.reply == Reply::OtherKeySignature && r.delivered_ms < now {
                let t = r.tower as usize;
                if i < self.towers[t].ignore_before {
                    continue;
                }
                if self.towers[t].misbehaved_at.is_none() && self.towers[t].registered && !self.towers[t].abandoned
                    && !marks.iter().any(|m| m.0 == t)
                {
                    // requests issued after the reply was delivered must not happen
                    let first_after = st.log.iter().position(|x| x.at_ms > r.delivered_ms).unwrap_or(st.log.len());
                    let _ = i;
                    marks.push((t, first_after));
                }
            }
        }
        drop(st);
        for (t, idx) in marks {
            self.towers[t].misbehaved_at = Some(self.cur);
            self.towers[t].requests_at_misbehaviour = idx;
            self.probe("wrong_key_acknowledgement_received");
        }
    }

    /// After a wrong-key acknowledgement: no further request may reach that tower.
    fn check_no_traffic_to_misbehaving(&mut self, at: &str) {
        self.scan_misbehaviour();
        let log_len = self.net.st.lock().unwrap_or_else(|e| e.into_inner()).log.len();
        for t in 0..self.towers.len() {
            if let Some(_) = self.towers[t].misbehaved_at {
                let base = self.towers[t].requests_at_misbehaviour;
                let later: usize = {
                    let st = self.net.st.lock().unwrap_or_else(|e| e.into_inner());
                    st.log[base.min(log_len)..].iter().filter(|r| r.tower == t as u32 && r.endpoint == "add_appointment").count()
                };
                if later > 0 {
                    self.report(
                        "C14",
                        "requests_after_misbehaviour",
                        format!("{at}: {later} further add_appointment requests reached tower {t} after it was proven misbehaving"),
                    );
                    self.towers[t].requests_at_misbehaviour = log_len;
                }
            }
        }
    }

    async fn boot(&mut self) -> Option<(Lightningd, tokio::task::JoinHandle<()>)> {
        RT_START.with(|c| c.set(Some(tokio::time::Instant::now())));
        self.net.st.lock().unwrap_or_else(|e| e.into_inner()).epoch_ms = self.epoch_ms;
        let (ld_w, plugin_r) = tokio::io::duplex(1 << 20);
        let (plugin_w, ld_r) = tokio::io::duplex(1 << 22);
        let mut ld = Lightningd {
            to_plugin: ld_w,
            from_plugin: ld_r,
            buf: vec![],
            next_id: 100,
            pending: BTreeMap::new(),
        };
        let cfg = &self.hist.cfg;
        ld.send_raw(json!({"jsonrpc": "2.0", "id": 1, "method": "getmanifest", "params": {"allow-deprecated-apis": false}})).await;
        ld.send_raw(json!({"jsonrpc": "2.0", "id": 2, "method": "init", "params": {
            "options": {
                "watchtower-max-retry-time": cfg.max_retry_time,
                "watchtower-auto-retry-delay": cfg.auto_retry_delay,
                "dev-watchtower-max-retry-interval": cfg.max_interval,
            },
            "configuration": {"lightning-dir": "/tmp/l", "rpc-file": "lightning-rpc", "startup": true, "network": "regtest", "feature_set": {}}
        }}))
        .await;
        let midstate = match plugin_main::builder(plugin_r, plugin_w).configure().await {
            Ok(Some(m)) => m,
            _ => return None,
        };
        let (tx, rx) = tokio::sync::mpsc::unbounded_channel();
        let wt_client = Arc::new(Mutex::new(WTClient::with_proxy(self.dir.clone(), tx, None).await));
        let plugin = midstate.start(wt_client.clone()).await.ok()?;
        let (a, b, c) = (cfg.max_retry_time as u16, cfg.auto_retry_delay, cfg.max_interval as u16);
        let jh = tokio::spawn(async move {
            let _keep = plugin;
            RetryManager::new(wt_client, rx, a, b, c).manage_retry().await
        });
        let _ = ld.wait_reply(1, 5).await;
        let _ = ld.wait_reply(2, 5).await;
        Some((ld, jh))
    }
}

/// Runs a client history. One OS thread, one current-thread runtime per client lifetime, paused clock.
pub fn run_client(hist: &ClientHistory) -> ClientResult {
    crate::exec::install_panic_hook();
    crate::seed_os_randomness(crate::rng::derive(hist.seed, "os-client", 0));
    let dir = crate::exec::scratch_dir();
    let uni = Universe { seed: hist.seed };
    // towers
    let mut towers = vec![];
    for t in 0..hist.cfg.n_towers {
        let sk = uni.user_sk(1000 + t);
        let other = uni.user_sk(2000 + t);
        let id = TowerId(PublicKey::from_secret_key(&Secp256k1::new(), &sk));
        towers.push(FakeTower {
            sk,
            other_sk: other,
            id,
            script: VecDeque::new(),
            default: Reply::Accept,
            latency_ms: 20,
            slots: 0,
            start: 0,
            expiry: 0,
            registrations: 0,
            accepted: BTreeSet::new(),
            healthy_since: Some(0),
            failing_since: None,
            bad_register_reply: false,
            lapsed: false,
            lapse_told: false,
            lapsed_for_good: None,
        });
    }
    let net = Arc::new(Net {
        st: Mutex::new(NetState {
            towers,
            log: vec![],
            epoch_ms: 0,
            in_flight: 0,
            requests_without_time_advance: 0,
            last_request_ms: u64::MAX,
            hot_loop: false,
            braked: false,
        }),
        dead: AtomicBool::new(false),
    });
    watchtower_plugin::verif_net::set_simnet(Some(net.clone()));

    // crash points of the client dbm
    let counter = Arc::new(AtomicU64::new(0));
    let armed = Arc::new(Mutex::new(hist.crash_at.clone()));
    let killed_flag = Arc::new(AtomicBool::new(false));
    let cp_kills = Arc::new(AtomicU64::new(0));
    {
        let counter = counter.clone();
        let armed = armed.clone();
        let killed = killed_flag.clone();
        let net2 = net.clone();
        let cp_kills2 = cp_kills.clone();
        teos_common::verif::set_crash_callback(Some(Arc::new(move |_site: &'static str| {
            if killed.load(Ordering::SeqCst) {
                // the process is dead: nothing durable may happen any more
                std::panic::panic_any(CrashSignal);
            }
            let n = counter.fetch_add(1, Ordering::SeqCst) + 1;
            let mut a = armed.lock().unwrap_or_else(|e| e.into_inner());
            if a.first() == Some(&n) {
                a.remove(0);
                cp_kills2.fetch_add(1, Ordering::SeqCst);
                killed.store(true, Ordering::SeqCst);
                net2.dead.store(true, Ordering::SeqCst);
                std::panic::panic_any(CrashSignal);
            }
        })));
    }

    let mut s = Session {
        hist,
        uni,
        dir: dir.clone(),
        net: net.clone(),
        found: vec![],
        stats: ClientStats::default(),
        cur: 0,
        towers: (0..hist.cfg.n_towers)
            .map(|_| TowerModel {
                registered: false,
                abandoned: false,
                misbehaved_at: None,
                requests_at_misbehaviour: 0,
                ignore_before: 0,
                user_cmd_failed: false,
                touched_ms: 0,
            })
            .collect(),
        handled: BTreeMap::new(),
        unanswered: vec![],
        epoch_ms: 0,
        clock_ms: 0,
        log_digest: 0,
        rate_checked_upto: 0,
        cp_kills: cp_kills.clone(),
    };

    let mut next = 0usize;
    let mut boots = 0;
    while next <= hist.ops.len() && boots < 40 {
        boots += 1;
        killed_flag.store(false, Ordering::SeqCst);
        net.dead.store(false, Ordering::SeqCst);
        LAST_PANIC.with(|p| *p.borrow_mut() = None);
        let rt = tokio::runtime::Builder::new_current_thread()
            .enable_all()
            .start_paused(true)
            .build()
            .expect("runtime");
        let killed = killed_flag.clone();
        let res = std::panic::catch_unwind(std::panic::AssertUnwindSafe(|| {
            rt.block_on(async {
                let Some((mut ld, _jh)) = s.boot().await else {
                    s.report("C14", "client_does_not_start", "the plugin did not complete its start-up handshake".into());
                    return SessionEnd::Done;
                };
                if boots > 1 {
                    s.probe("restart");
                    {
                        let now = s.epoch_ms;
                        let mut st = s.net.st.lock().unwrap_or_else(|e| e.into_inner());
                        for tw in st.towers.iter_mut() {
                            if tw.healthy_since.is_some() {
                                tw.healthy_since = Some(now);
                            }
                        }
                        drop(st);
                        s.towers.iter_mut().for_each(|tm| tm.touched_ms = now);
                    }
                    // give the retry manager a moment, then check reload consistency
                    tokio::time::sleep(Duration::from_millis(10)).await;
                    let v = ld.call("listtowers", json!([]), 30).await;
                    s.check_store("after restart", v.as_ref());
                    // CLN redelivers hooks it got no answer for
                    let again: Vec<u32> = std::mem::take(&mut s.unanswered);
                    for c in again {
                        s.probe("hook_redelivered");
                        if s.do_revoke(&mut ld, c, &killed, false).await {
                            return SessionEnd::Killed;
                        }
                    }
                }
                while next < hist.ops.len() {
                    s.cur = next;
                    let op = hist.ops[next].clone();
                    next += 1;
                    s.stats.ops += 1;
                    let killed_now = s.exec(&mut ld, &op, &killed).await;
                    s.clock_ms = virtual_ms();
                    if killed_now || killed.load(Ordering::SeqCst) {
                        return SessionEnd::Killed;
                    }
                    if s.net.st.lock().unwrap_or_else(|e| e.into_inner()).hot_loop {
                        s.report("C13", "hot_loop", "more than 1000 requests to a tower without any time passing".into());
                        return SessionEnd::Done;
                    }
                }
                // end of history: let things settle and check once more
                tokio::time::sleep(Duration::from_secs(2)).await;
                let v = ld.call("listtowers", json!([]), 30).await;
                if v.is_none() {
                    s.report("C14", "client_wedged", "listtowers got no answer at the end of the history".into());
                }
                s.check_store("at the end", v.as_ref());
                s.check_retry_liveness("at the end", v.as_ref());
                s.check_no_traffic_to_misbehaving("at the end");
                s.clock_ms = virtual_ms();
                next = hist.ops.len() + 1;
                SessionEnd::Done
            })
        }));
        // replies still on the wire when the client died were never received
        {
            let died_at = s.epoch_ms + s.clock_ms;
            let mut st = net.st.lock().unwrap_or_else(|e| e.into_inner());
            for r in st.log.iter_mut() {
                if r.delivered_ms >= died_at && r.delivered_ms != u64::MAX {
                    r.delivered_ms = u64::MAX;
                }
            }
        }
        s.epoch_ms += s.clock_ms;
        s.clock_ms = 0;
        s.stats.virtual_secs = s.epoch_ms / 1000;
        drop(rt);
        match res {
            Ok(SessionEnd::Done) => break,
            Ok(SessionEnd::Killed) => {
                s.stats.kills += 1;
                continue;
            }
            Err(p) => {
                if p.downcast_ref::<CrashSignal>().is_some() {
                    s.stats.kills += 1;
                    continue;
                }
                let info = LAST_PANIC.with(|p| p.borrow_mut().take()).unwrap_or(PanicInfo {
                    location: "?".into(),
                    message: "?".into(),
                });
                if info.location.starts_with("src/") || info.message.starts_with("HARNESS") {
                    eprintln!("HARNESS ERROR: panic at {}: {}", info.location, info.message);
                    std::process::exit(2);
                }
                s.report(
                    "C14",
                    "client_abort",
                    format!("panic at {}: {}", crate::exec::normalise_location(&info.location), crate::exec::first_line(&info.message)),
                );
                break;
            }
        }
    }
    teos_common::verif::set_crash_callback(None);
    watchtower_plugin::verif_net::set_simnet(None);
    let _ = std::fs::remove_dir_all(&dir);
    s.stats.crash_points = counter.load(Ordering::SeqCst);
    {
        let st = net.st.lock().unwrap_or_else(|e| e.into_inner());
        s.stats.requests = st.log.len() as u64;
        let mut h = s.log_digest;
        if std::env::var("SIM_TRACE").is_ok() {
            for r in st.log.iter() {
                eprintln!("[net] at={} delivered={} tower={} {} {:?} {:?}", r.at_ms, r.delivered_ms, r.tower, r.endpoint, r.locator.as_ref().map(|l| hex::encode(&l[..4])), r.reply);
            }
        }
        for r in st.log.iter() {
            *s.stats.replies_injected.entry(format!("{:?}", r.reply).split('(').next().unwrap_or("").to_string()).or_insert(0) += 1;
            h = fnv(h, format!("{} {} {} {:?} {:?}", r.at_ms, r.tower, r.endpoint, r.locator, r.reply).as_bytes());
        }
        for f in s.found.iter() {
            h = fnv(h, format!("{} {} {}", f.property, f.clause, f.op_index).as_bytes());
        }
        s.stats.digest = h;
        if std::env::var("SIM_DEBUG").is_ok() {
            for r in st.log.iter() {
                eprintln!(
                    "[net] t={}ms tower {} {} {} -> {:?} (delivered {})",
                    r.at_ms,
                    r.tower,
                    r.endpoint,
                    r.locator.as_ref().map(|l| hex::encode(&l[..4.min(l.len())])).unwrap_or_default(),
                    r.reply,
                    if r.delivered_ms == u64::MAX { "never".to_string() } else { format!("{}ms", r.delivered_ms) }
                );
            }
        }
        s.stats.kills_at_crash_points = cp_kills.load(Ordering::SeqCst);
        s.stats.nontrivial = st.log.iter().any(|r| r.reply != Reply::Accept) || s.stats.kills > 0;
    }
    ClientResult {
        found: s.found,
        stats: s.stats,
    }
}

impl<'a> Session<'a> {
    /// Sends a commitment_revocation hook and waits for its answer. Returns true if the client died meanwhile.
    async fn do_revoke(&mut self, ld: &mut Lightningd, c: u32, killed: &Arc<AtomicBool>, twice: bool) -> bool {
        let params = self.revocation_params(c);
        let loc = self.locator_of(c);
        let live: BTreeSet<u32> = (0..self.towers.len() as u32)
            .filter(|t| {
                let tm = &self.towers[*t as usize];
                tm.registered && !tm.abandoned && tm.misbehaved_at.is_none()
            })
            .collect();
        let log_before = self.net.st.lock().unwrap_or_else(|e| e.into_inner()).log.len();
        let first = if twice {
            ld.next_id += 1;
            let id = ld.next_id;
            ld.send_raw(json!({"jsonrpc": "2.0", "id": id, "method": "commitment_revocation", "params": params.clone()})).await;
            self.probe("notification_delivered_twice_concurrently");
            Some(id)
        } else {
            None
        };
        let mut r = ld.call("commitment_revocation", params, 600).await;
        if let Some(id) = first {
            let r1 = ld.wait_reply(id, 600).await;
            if r1.is_none() {
                r = None;
            }
        }
        if killed.load(Ordering::SeqCst) {
            self.unanswered.push(c);
            return true;
        }
        match r {
            None => {
                self.unanswered.push(c);
                // did a handler die? (a panic inside a handler task is swallowed by the runtime: lightningd never gets its answer)
                let info = LAST_PANIC.with(|p| p.borrow_mut().take());
                self.report(
                    "C14",
                    "hook_unanswered",
                    format!(
                        "commitment_revocation #{c} got no answer within 600 virtual seconds{}",
                        info.map(|i| format!(" (panic at {}: {})", crate::exec::normalise_location(&i.location), crate::exec::first_line(&i.message)))
                            .unwrap_or_default()
                    ),
                );
            }
            Some(_) => {
                let e = self.handled.entry(loc.clone()).or_default();
                e.extend(live.iter().cloned());
                let _ = log_before;
            }
        }
        self.scan_misbehaviour();
        let v = ld.call("listtowers", json!([]), 30).await;
        if v.is_none() && !killed.load(Ordering::SeqCst) {
            self.report("C14", "client_wedged", format!("listtowers got no answer after revocation #{c}"));
        }
        self.check_store(&format!("after revocation #{c}"), v.as_ref());
        // misbehaviour must be flagged and proven
        for t in 0..self.towers.len() {
            if self.towers[t].misbehaved_at == Some(self.cur) {
                let tid = self.tower_id(t as u32).to_vec();
                if let Some(db) = read_client_db(&self.dir.join("watchtowers_db.sql3")) {
                    if !db.proofs.contains_key(&tid) && db.towers.contains_key(&tid) {
                        self.report(
                            "C14",
                            "misbehaviour_not_proven",
                            format!("tower {t} acknowledged revocation #{c} with another key but no proof was stored"),
                        );
                    }
                }
            }
        }
        self.check_no_traffic_to_misbehaving(&format!("after revocation #{c}"));
        false
    }

    async fn exec(&mut self, ld: &mut Lightningd, op: &COp, killed: &Arc<AtomicBool>) -> bool {
        {
            let now = self.epoch_ms + virtual_ms();
            match op {
                COp::Register { t }
                | COp::RetryTower { t }
                | COp::AbandonTower { t }
                | COp::Lapse { t }
                | COp::LapseForGood { t }
                | COp::Latency { t, .. }
                | COp::Script { t, .. }
                | COp::Default { t, .. } => {
                    if let Some(tm) = self.towers.get_mut(*t as usize) {
                        tm.touched_ms = now;
                    }
                }
                COp::Kill => self.towers.iter_mut().for_each(|tm| tm.touched_ms = now),
                _ => {}
            }
        }
        match op {
            COp::Register { t } => {
                let id = self.tower_id(*t);
                let before = read_client_db(&self.dir.join("watchtowers_db.sql3"));
                let log_before = self.net.st.lock().unwrap_or_else(|e| e.into_inner()).log.len();
                let cmd_start = self.epoch_ms + virtual_ms();
                let r = ld.call("registertower", json!([format!("{}@tower{}:9814", id, t)]), 120).await;
                if killed.load(Ordering::SeqCst) {
                    // killed inside the command: the registration took effect iff the tower's row is (newly) in the database
                    let now_there = read_client_db(&self.dir.join("watchtowers_db.sql3"))
                        .map(|db| db.towers.contains_key(&id.to_vec()))
                        .unwrap_or(false);
                    let was_there = before.as_ref().map(|db| db.towers.contains_key(&id.to_vec())).unwrap_or(false);
                    if now_there && !was_there {
                        let tm = &mut self.towers[*t as usize];
                        tm.registered = true;
                        if tm.abandoned {
                            tm.abandoned = false;
                            tm.misbehaved_at = None;
                        }
                    }
                    return true;
                }
                let served: Option<Reply> = {
                    let st = self.net.st.lock().unwrap_or_else(|e| e.into_inner());
                    st.log[log_before..].iter().find(|r| r.endpoint == "register").map(|r| r.reply.clone())
                };
                // A receipt that "does not extend" is relative to what the tower handed out before; a client that does not know
                // the tower (never registered, or abandoned it since) has nothing to extend: for it this is a plain registration.
                let unknown_before = !before.as_ref().map(|db| db.towers.contains_key(&id.to_vec())).unwrap_or(false);
                let served = match served {
                    Some(Reply::NotExtending(_)) if unknown_before => {
                        self.probe("non_extending_receipt_for_a_client_that_knows_nothing");
                        Some(Reply::Accept)
                    }
                    s => s,
                };
                let ok = r.as_ref().map(|v| v.get("result").is_some()).unwrap_or(false);
                if served == Some(Reply::Refuse) {
                    self.towers[*t as usize].user_cmd_failed = true;
                }
                if ok && (self.towers[*t as usize].abandoned || !self.towers[*t as usize].registered) {
                    // a tower registered anew starts as reachable; a renewal leaves the status (flipped or not) as it is
                    self.towers[*t as usize].user_cmd_failed = false;
                }
                match (&r, &served) {
                    (None, _) => self.report("C14", "client_wedged", format!("registertower {t} got no answer")),
                    (Some(_), Some(Reply::Accept)) => {
                        if ok && !self.towers[*t as usize].abandoned {
                            self.towers[*t as usize].registered = true;
                        } else if ok {
                            self.towers[*t as usize].registered = true;
                            self.towers[*t as usize].abandoned = false;
                            self.towers[*t as usize].misbehaved_at = None;
                        }
                        if !ok {
                            self.report("C14", "valid_registration_refused", format!("registertower {t}: a valid, extending receipt was refused: {:?}", r));
                        }
                    }
                    (Some(_), Some(rep)) => {
                        // anything else must not be recorded
                        self.probe("bad_registration_reply");
                        let after = read_client_db(&self.dir.join("watchtowers_db.sql3"));
                        // only this tower's rows matter (a retrier may be renewing another tower's subscription meanwhile)
                        let tid = id.to_vec();
                        let rows = |d: &ClientDb| {
                            (
                                d.registration_receipts.iter().filter(|(k, _)| k.0 == tid).map(|(k, v)| (k.clone(), v.clone())).collect::<Vec<_>>(),
                                d.towers.get(&tid).cloned(),
                            )
                        };
                        // (nor does a change made by a good renewal of the same tower that somebody else -- its retrier --
                        // received while this command was waiting for its own answer)
                        let cmd_end = self.epoch_ms + virtual_ms();
                        let renewed_meanwhile = {
                            let st = self.net.st.lock().unwrap_or_else(|e| e.into_inner());
                            st.log.iter().any(|x| {
                                x.tower == *t && x.endpoint == "register" && x.reply == Reply::Accept && x.delivered_ms > cmd_start && x.delivered_ms <= cmd_end
                            })
                        };
                        if renewed_meanwhile {
                            self.probe("good_renewal_during_bad_registration");
                        }
                        let changed = match (&before, &after) {
                            (Some(b), Some(a)) if !renewed_meanwhile => {
                                let (rb, tb) = rows(b);
                                let (ra, ta) = rows(a);
                                rb != ra || tb.map(|x| x.0) != ta.map(|x| x.0)
                            }
                            _ => false,
                        };
                        if ok || changed {
                            self.report(
                                "C14",
                                "bad_registration_recorded",
                                format!("registertower {t}: reply {rep:?} was accepted (rpc ok={ok}, store changed={changed})"),
                            );
                        }
                    }
                    (Some(_), None) => {}
                }
                let v = ld.call("listtowers", json!([]), 30).await;
                self.check_store(&format!("after registertower {t}"), v.as_ref());
            }
            COp::Revoke { c } => {
                return self.do_revoke(ld, *c, killed, false).await;
            }
            COp::RevokeTwice { c } => {
                return self.do_revoke(ld, *c, killed, true).await;
            }
            COp::Advance { secs } => {
                tokio::time::sleep(Duration::from_secs(*secs as u64)).await;
                if killed.load(Ordering::SeqCst) {
                    return true;
                }
                let v = ld.call("listtowers", json!([]), 30).await;
                if v.is_none() && !killed.load(Ordering::SeqCst) {
                    self.report("C14", "client_wedged", "listtowers got no answer after time passed".into());
                }
                self.check_store(&format!("after {secs}s"), v.as_ref());
                self.check_retry_liveness(&format!("after {secs}s"), v.as_ref());
                self.check_no_traffic_to_misbehaving(&format!("after {secs}s"));
            }
            COp::Script { t, replies } => {
                let now = self.epoch_ms + virtual_ms();
                let mut st = self.net.st.lock().unwrap_or_else(|e| e.into_inner());
                if let Some(tw) = st.towers.get_mut(*t as usize) {
                    tw.script.extend(replies.iter().cloned());
                    if tw.script.iter().any(|r| *r != Reply::Accept) {
                        tw.healthy_since = None;
                    }
                    let _ = now;
                }
            }
            COp::Default { t, reply } => {
                let now = self.epoch_ms + virtual_ms();
                let mut st = self.net.st.lock().unwrap_or_else(|e| e.into_inner());
                if let Some(tw) = st.towers.get_mut(*t as usize) {
                    tw.default = reply.clone();
                    if *reply == Reply::Accept {
                        tw.failing_since = None;
                        tw.lapsed_for_good = None;
                        if tw.script.iter().all(|r| *r == Reply::Accept) && tw.healthy_since.is_none() {
                            tw.healthy_since = Some(now);
                        }
                    } else {
                        tw.healthy_since = None;
                        if tw.failing_since.is_none() {
                            tw.failing_since = Some(now);
                        }
                    }
                }
            }
            COp::Latency { t, ms } => {
                let mut st = self.net.st.lock().unwrap_or_else(|e| e.into_inner());
                if let Some(tw) = st.towers.get_mut(*t as usize) {
                    tw.latency_ms = *ms;
                }
            }
            COp::Lapse { t } => {
                let mut st = self.net.st.lock().unwrap_or_else(|e| e.into_inner());
                if let Some(tw) = st.towers.get_mut(*t as usize) {
                    if tw.registrations > 0 {
                        tw.lapsed = true;
                        tw.lapse_told = false;
                    }
                }
                drop(st);
                self.probe("subscription_lapsed_at_tower");
            }
            COp::LapseForGood { t } => {
                let now = self.epoch_ms + virtual_ms();
                let mut st = self.net.st.lock().unwrap_or_else(|e| e.into_inner());
                if let Some(tw) = st.towers.get_mut(*t as usize) {
                    if tw.registrations > 0 && tw.lapsed_for_good.is_none() {
                        tw.lapsed_for_good = Some(now);
                        tw.healthy_since = None;
                    }
                }
                drop(st);
                self.probe("subscription_refused_for_good_at_tower");
            }
            COp::RetryTower { t } => {
                let id = self.tower_id(*t);
                let before = ld.call("listtowers", json!([]), 30).await;
                let status = before
                    .as_ref()
                    .and_then(|v| v.get("result"))
                    .and_then(|r| r.get(hex::encode(id.to_vec())))
                    .and_then(|i| i.get("status"))
                    .and_then(|s| s.as_str())
                    .unwrap_or("")
                    .to_string();
                let r = ld.call("retrytower", json!([id.to_string()]), 30).await;
                let ok = r.as_ref().map(|v| v.get("result").is_some()).unwrap_or(false);
                self.probe("manual_retry");
                // (a tower shown as temporarily unreachable only because a user command just failed keeps its idle retrier:
                // waking that one up is the documented use of the command)
                let flipped = status == "temporary_unreachable" && self.towers[*t as usize].user_cmd_failed;
                if ok && !flipped && matches!(status.as_str(), "reachable" | "temporary_unreachable" | "misbehaving") {
                    self.report(
                        "C13",
                        "manual_retry_accepted_in_wrong_state",
                        format!("retrytower {t} was accepted although the tower is '{status}'"),
                    );
                }
                if !ok && status == "unreachable" && r.as_ref().and_then(|v| v.get("error")).map(|e| !e.to_string().contains("already being retried")).unwrap_or(false) {
                    self.report(
                        "C13",
                        "manual_retry_refused_for_unreachable_tower",
                        format!("retrytower {t} was refused although the tower is unreachable: {:?}", r),
                    );
                }
            }
            COp::AbandonTower { t } => {
                let id = self.tower_id(*t);
                let r = ld.call("abandontower", json!([id.to_string()]), 30).await;
                let was_killed = killed.load(Ordering::SeqCst);
                // killed inside the command: it took effect iff the tower's row is gone from the database
                let applied_before_kill = was_killed
                    && read_client_db(&self.dir.join("watchtowers_db.sql3"))
                        .map(|db| !db.towers.contains_key(&id.to_vec()))
                        .unwrap_or(false)
                    && self.towers[*t as usize].registered;
                if applied_before_kill || (!was_killed && r.as_ref().map(|v| v.get("result").is_some()).unwrap_or(false)) {
                    self.towers[*t as usize].abandoned = true;
                    self.towers[*t as usize].registered = false;
                    self.towers[*t as usize].misbehaved_at = None;
                    self.towers[*t as usize].ignore_before = self.net.st.lock().unwrap_or_else(|e| e.into_inner()).log.len();
                    // everything the client held for that tower is gone, and with it the obligations
                    for set in self.handled.values_mut() {
                        set.remove(t);
                    }
                    self.probe("tower_abandoned");
                }
                if was_killed {
                    return true;
                }
                let v = ld.call("listtowers", json!([]), 30).await;
                self.check_store(&format!("after abandontower {t}"), v.as_ref());
            }
            COp::ListTowers => {
                let v = ld.call("listtowers", json!([]), 30).await;
                if std::env::var("SIM_DEBUG").is_ok() {
                    let db = read_client_db(&self.dir.join("watchtowers_db.sql3"));
                    eprintln!("[dbg] listtowers at {}ms: {:?}; db pending {:?} invalid {:?} receipts {:?}", self.epoch_ms + virtual_ms(), v.as_ref().map(|x| x.to_string()),
                        db.as_ref().map(|d| d.pending.iter().map(|k| hex::encode(&k.0[..4])).collect::<Vec<_>>()),
                        db.as_ref().map(|d| d.invalid.iter().map(|k| hex::encode(&k.0[..4])).collect::<Vec<_>>()),
                        db.as_ref().map(|d| d.receipts.keys().map(|k| hex::encode(&k.0[..4])).collect::<Vec<_>>()));
                }
                self.check_store("listtowers", v.as_ref());
            }
            COp::GetTowerInfo { t } => {
                let id = self.tower_id(*t);
                let r = ld.call("gettowerinfo", json!([id.to_string()]), 30).await;
                if r.is_none() && !killed.load(Ordering::SeqCst) {
                    self.report("C14", "client_wedged", format!("gettowerinfo {t} got no answer"));
                }
            }
            COp::GetReceipt { t, c } => {
                let id = self.tower_id(*t);
                let loc = hex::encode(self.locator_of(*c));
                let _ = ld.call("getappointmentreceipt", json!([id.to_string(), loc]), 30).await;
            }
            COp::AskTower { t, c } => {
                let id = self.tower_id(*t);
                let log_before = self.net.st.lock().unwrap_or_else(|e| e.into_inner()).log.len();
                let r = match c {
                    None => ld.call("getsubscriptioninfo", json!([id.to_string()]), 60).await,
                    Some(c) => ld.call("getappointment", json!([id.to_string(), hex::encode(self.locator_of(*c))]), 60).await,
                };
                if r.is_none() && !killed.load(Ordering::SeqCst) {
                    self.report("C14", "client_wedged", format!("a user command asking tower {t} got no answer"));
                }
                let refused = {
                    let st = self.net.st.lock().unwrap_or_else(|e| e.into_inner());
                    st.log[log_before.min(st.log.len())..].iter().any(|r| r.tower == *t && r.reply == Reply::Refuse && r.endpoint != "add_appointment" && r.endpoint != "register")
                };
                if refused {
                    self.towers[*t as usize].user_cmd_failed = true;
                }
                self.probe("user_command_to_tower");
            }
            COp::Kill => {
                self.probe("kill");
                return true;
            }
        }
        killed.load(Ordering::SeqCst)
    }
}

#[allow(dead_code)]
fn unused() {
    let _ = now_ms();
}
