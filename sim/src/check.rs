//! Command line: batches of seeded runs over worker processes, violation reporting, replay, evidence.

use std::collections::{BTreeMap, BTreeSet};
use std::io::Write;
use std::path::{Path, PathBuf};
use std::process::{Command, Stdio};
use std::time::{Duration, Instant, SystemTime, UNIX_EPOCH};

use serde::{Deserialize, Serialize};
use serde_json::json;

use crate::exec::{self, Found, RunResult, RunStats};
use crate::gen::{self, Profile};
use crate::ops::History;
use crate::rng::{derive, Rng};

#[derive(Clone, Copy, PartialEq, Eq, Debug)]
pub enum Engine {
    Seq,
    /// Every history is first run uninterrupted to number its crash points, then once per (sampled / every) crash point.
    Crash,
    /// Prepared state + concurrent threads under the baton scheduler; sequential orders of the real code as reference.
    Conc,
    /// Outage placed at every (sampled) node call of a concurrent scenario.
    Outage,
    /// The CLN plugin in-process against scripted fake towers on a paused clock.
    Client,
}

pub struct PropSpec {
    pub id: &'static str,
    pub engine: Engine,
    pub profiles: &'static [(Profile, u32)],
    pub level: &'static str,
    pub quick_secs: u64,
    pub quick_runs: u64,
    pub thorough_secs: u64,
    pub rule: &'static str,
}

const RULE_SEQ: &str = "histories are generated from splitmix(VERIF_SEED, property, index) by the swarm generator (sizes, tower config, workload mix drawn per run) and executed against the real tower; a run is non-trivial when at least one breach / trigger / tracker transition / purge / injected node fault occurred in it; distinct = distinct hash of (tower config, operation sequence with arguments, fault script)";

pub const SPECS: &[PropSpec] = &[
    PropSpec { id: "C01", engine: Engine::Seq, profiles: &[(Profile::Breach, 70), (Profile::Chain, 15), (Profile::Resubmit, 15)], level: "exploration", quick_secs: 60, quick_runs: 30_000, thorough_secs: 900, rule: RULE_SEQ },
    PropSpec { id: "C02", engine: Engine::Seq, profiles: &[(Profile::Breach, 50), (Profile::Chain, 35), (Profile::Expiry, 15)], level: "exploration", quick_secs: 60, quick_runs: 30_000, thorough_secs: 900, rule: RULE_SEQ },
    PropSpec { id: "C03", engine: Engine::Crash, profiles: &[(Profile::Breach, 50), (Profile::Chain, 20), (Profile::Expiry, 15), (Profile::Completion, 15)], level: "fault_enumeration", quick_secs: 75, quick_runs: 1100, thorough_secs: 1200, rule: RULE_CRASH },
    PropSpec { id: "C04", engine: Engine::Seq, profiles: &[(Profile::Chain, 75), (Profile::Completion, 15), (Profile::Breach, 10)], level: "exploration", quick_secs: 75, quick_runs: 20_000, thorough_secs: 1200, rule: RULE_SEQ },
    PropSpec { id: "C05", engine: Engine::Client, profiles: &[], level: "exploration", quick_secs: 60, quick_runs: 100_000, thorough_secs: 900, rule: RULE_CLIENT },
    PropSpec { id: "C06", engine: Engine::Seq, profiles: &[(Profile::Auth, 85), (Profile::Expiry, 15)], level: "exploration", quick_secs: 60, quick_runs: 30_000, thorough_secs: 900, rule: RULE_SEQ },
    PropSpec { id: "C07", engine: Engine::Seq, profiles: &[(Profile::Breach, 45), (Profile::Chain, 15), (Profile::Expiry, 15), (Profile::Auth, 15), (Profile::Completion, 10)], level: "exploration", quick_secs: 60, quick_runs: 30_000, thorough_secs: 900, rule: RULE_SEQ },
    PropSpec { id: "C08", engine: Engine::Seq, profiles: &[(Profile::Breach, 60), (Profile::Expiry, 20), (Profile::Chain, 20)], level: "exploration", quick_secs: 60, quick_runs: 30_000, thorough_secs: 900, rule: RULE_SEQ },
    PropSpec { id: "C09", engine: Engine::Seq, profiles: &[(Profile::Expiry, 85), (Profile::Breach, 15)], level: "exploration", quick_secs: 60, quick_runs: 30_000, thorough_secs: 900, rule: RULE_SEQ },
    PropSpec { id: "C10", engine: Engine::Conc, profiles: &[], level: "exploration", quick_secs: 75, quick_runs: 100_000, thorough_secs: 1200, rule: RULE_CONC },
    PropSpec { id: "C11", engine: Engine::Seq, profiles: &[(Profile::Resubmit, 50), (Profile::Breach, 20), (Profile::Chain, 20), (Profile::Expiry, 10)], level: "exploration", quick_secs: 60, quick_runs: 30_000, thorough_secs: 900, rule: RULE_SEQ },
    PropSpec { id: "C12", engine: Engine::Outage, profiles: &[], level: "fault_enumeration", quick_secs: 75, quick_runs: 100_000, thorough_secs: 1200, rule: RULE_OUTAGE },
    PropSpec { id: "C13", engine: Engine::Client, profiles: &[], level: "exploration", quick_secs: 60, quick_runs: 100_000, thorough_secs: 900, rule: RULE_CLIENT },
    PropSpec { id: "C14", engine: Engine::Client, profiles: &[], level: "exploration", quick_secs: 60, quick_runs: 100_000, thorough_secs: 900, rule: RULE_CLIENT },
    PropSpec { id: "C15", engine: Engine::Seq, profiles: &[(Profile::Http, 100)], level: "exploration", quick_secs: 60, quick_runs: 30_000, thorough_secs: 900, rule: RULE_HTTP },
    PropSpec { id: "C18", engine: Engine::Client, profiles: &[], level: "exploration", quick_secs: 60, quick_runs: 100_000, thorough_secs: 900, rule: RULE_CLIENT },
    PropSpec { id: "C19", engine: Engine::Seq, profiles: &[(Profile::Chain, 70), (Profile::Breach, 30)], level: "exploration", quick_secs: 60, quick_runs: 30_000, thorough_secs: 900, rule: RULE_SEQ },
];

const RULE_HTTP: &str = "histories as for C01/C06 (several users, small blobs, breaches, expiry, node flagged unreachable) whose API operations are made as HTTP/1.1 requests against the real warp router served by hyper over an in-memory pipe, in front of the real internal API behind a real tonic channel; each request is the valid request of the operation under a seeded mutation (re-encodings that keep its meaning; drop / duplicate / retype / resize a field, odd or non-hex strings, empty strings, oversized or chunked bodies, other methods and paths, raw bytes, deep nesting, truncation, out-of-range numbers); evaluations = histories; non-trivial = at least one request had to be refused and at least one kept its meaning; distinct = distinct hash of (config, operation list)";

const RULE_CRASH: &str = "histories as for C01 (shorter, with block-download failures and multi-block polls); each history is first executed uninterrupted to number the crash points it passes (before/after every durable write and explicit sqlite commit, before/after every node RPC and block-source call); then it is re-executed once per crash point (quick: 12 sampled per history; thorough: every point), the tower being killed there, restarted on the same sqlite file and driven through the remaining operations; evaluations = executions; non-trivial = a crash actually fired in a run with at least one breach / tracker transition / purge; distinct = distinct (history hash, crash point)";

const RULE_CONC: &str = "scenarios = seeded prepared state (sequential prefix) + 2-3 simulated threads (chain thread polling prepared blocks, API threads) from 8 templates (appointment vs block with its dispute, duplicate submission, registration vs submission, replacement vs trigger, completion/refund vs request, purge vs request, reorg vs request, free mix); each scenario is first run in every sequential order of its operations (reference outcomes from the real code), then under seeded random and PCT(d=2,3) schedules at lock / condvar / node-RPC granularity; evaluations = executions; distinct = distinct (scenario, schedule trace); non-trivial = schedule with at least one preemption";

const RULE_OUTAGE: &str = "scenarios = appointments / trackers in place + blocks waiting to be polled; chain thread polls 3-6 times, an API thread submits / reads, an environment thread brings the node back after it went down; a dry run numbers the RPCs and block-source calls of the concurrent phase, then the outage (transport error on every node call) is started at each of them (quick: 7 sampled per scenario; thorough: every one), on the request path and on the block path, each under 2-3 seeded schedules; evaluations = executions; distinct = distinct (scenario, outage point, schedule trace)";

const RULE_CLIENT: &str = "client histories are generated from splitmix(VERIF_SEED, property, index): 1-3 fake towers, registrations, commitment revocations, per-request scripted tower replies (accept / connection refused / API errors / non-JSON / wrong shape / other-key signature / malformed signature / non-extending receipt), outage windows, latency, virtual time passing, duplicate notifications, kills and restarts, abandon / retry / info commands; executed against the real plugin on a paused tokio clock; non-trivial = at least one non-accepting reply was served or the client was killed; distinct = distinct hash of (config, operation list)";

pub fn spec(id: &str) -> Option<&'static PropSpec> {
    SPECS.iter().find(|s| s.id == id)
}

pub fn root_seed() -> u64 {
    std::env::var("VERIF_SEED").ok().and_then(|s| s.parse().ok()).unwrap_or(1)
}

pub fn history_for(spec: &PropSpec, root: u64, index: u64) -> History {
    let seed = derive(root, spec.id, index);
    let mut r = Rng::new(derive(seed, "profile", 0));
    let weights: Vec<u32> = spec.profiles.iter().map(|p| p.1).collect();
    let profile = spec.profiles[r.weighted(&weights)].0;
    gen::generate(spec.id, seed, profile)
}

/// Runs one history in a fresh thread (std caches hash-map keys per thread).
/// Real seconds a sequential simulation may take before it is declared blocked (a normal one takes milliseconds).
pub const HANG_SECS: u64 = 25;

/// Set once a simulation of this process blocked for real: its thread cannot be recovered, so the process finishes what
/// it has and exits.
pub static PROCESS_HAS_STUCK_THREAD: std::sync::atomic::AtomicBool = std::sync::atomic::AtomicBool::new(false);

pub fn run_in_thread(h: &History) -> RunResult {
    let h2 = h.clone();
    let (tx, rx) = std::sync::mpsc::channel();
    let handle = std::thread::Builder::new()
        .stack_size(16 << 20)
        .spawn(move || {
            let r = exec::run_history(&h2);
            let _ = tx.send(r);
        })
        .unwrap();
    match rx.recv_timeout(std::time::Duration::from_secs(HANG_SECS)) {
        Ok(r) => {
            let _ = handle.join();
            r
        }
        Err(std::sync::mpsc::RecvTimeoutError::Disconnected) => {
            eprintln!("HARNESS ERROR: simulation thread died");
            std::process::exit(2)
        }
        Err(std::sync::mpsc::RecvTimeoutError::Timeout) => {
            // The tower is single-threaded here: an operation that does not return is waiting for something only it could
            // provide (a lock it already holds, a notification nobody else sends). That is C11's subject.
            PROCESS_HAS_STUCK_THREAD.store(true, std::sync::atomic::Ordering::SeqCst);
            let i = exec::CUR_OP_GLOBAL.load(std::sync::atomic::Ordering::SeqCst) as usize;
            let kind = h.ops.get(i).map(|o| o.kind().to_string()).unwrap_or_else(|| "boot".into());
            RunResult {
                found: vec![exec::Found {
                    op_index: i,
                    op_kind: kind.clone(),
                    v: crate::model::viol(
                        "C11",
                        "hang",
                        format!("operation #{i} ({kind}) did not return within {HANG_SECS} s of real time with nothing else running: the tower waits on itself"),
                    ),
                }],
                stats: Default::default(),
            }
        }
    }
}

pub fn signature(property: &str, f: &Found) -> String {
    // Violations detected at (re)start are not tied to the operation that happened to be in flight.
    let kind = if f.v.clause.starts_with("restart_") { "restart" } else { f.op_kind.as_str() };
    let mut s = format!("{}|{}|{}", property, f.v.clause, kind);
    if f.v.clause == "abort" {
        s.push('|');
        s.push_str(&f.v.detail);
    }
    s
}

fn sig8(sig: &str) -> String {
    let mut h: u64 = 0xcbf29ce484222325;
    for b in sig.as_bytes() {
        h ^= *b as u64;
        h = h.wrapping_mul(0x100000001b3);
    }
    format!("{:08x}", (h >> 32) as u32 ^ h as u32)
}

fn hist_hash(h: &History) -> u64 {
    let s = serde_json::to_string(&(&h.cfg, &h.ops, &h.faults)).unwrap();
    let mut x: u64 = 0xcbf29ce484222325;
    for b in s.as_bytes() {
        x ^= *b as u64;
        x = x.wrapping_mul(0x100000001b3);
    }
    x
}

#[derive(Serialize, Deserialize, Clone, Debug)]
pub struct KnownFinding {
    pub property: String,
    pub signature: String,
    pub status: String,
    #[serde(default)]
    pub commit: Option<String>,
    pub description: String,
    #[serde(default)]
    pub first_replay: Option<String>,
}

pub fn verif_dir() -> PathBuf {
    // The binary lives in /verif/sim/target/release; the working directory of a check is /verif.
    let exe = std::env::current_exe().unwrap();
    let mut p = exe.as_path();
    for _ in 0..4 {
        p = p.parent().unwrap_or(Path::new("/verif"));
    }
    if p.join("properties.jsonl").exists() {
        p.to_path_buf()
    } else {
        PathBuf::from("/verif")
    }
}

pub fn load_known() -> Vec<KnownFinding> {
    let p = verif_dir().join("known_findings.json");
    match std::fs::read_to_string(&p) {
        Ok(s) => serde_json::from_str(&s).unwrap_or_else(|e| {
            eprintln!("HARNESS ERROR: cannot parse {}: {e}", p.display());
            std::process::exit(2)
        }),
        Err(_) => vec![],
    }
}

fn is_known_open(known: &[KnownFinding], property: &str, sig: &str) -> Option<KnownFinding> {
    known
        .iter()
        .find(|k| k.property == property && k.status == "open" && k.signature == sig)
        .cloned()
}

#[derive(Serialize, Deserialize, Clone, Debug)]
pub struct ReplayFile {
    pub property: String,
    pub signature: String,
    pub detail: String,
    pub engine: String,
    pub history: History,
}

#[derive(Serialize, Deserialize, Default, Debug)]
pub struct WorkerOut {
    pub runs: u64,
    pub nontrivial_hashes: Vec<u64>,
    pub ops: u64,
    pub blocks_connected: u64,
    pub blocks_disconnected: u64,
    pub rpcs: u64,
    pub crashes: u64,
    pub restarts: u64,
    pub crash_points: u64,
    pub probes: BTreeMap<String, u64>,
    pub faults_fired: BTreeMap<String, u64>,
    pub model_states: Vec<u64>,
    pub samples: Vec<serde_json::Value>,
    pub violations: Vec<(String, String, String)>, // (signature, replay path, detail)
    pub known_seen: BTreeMap<String, u64>,
    pub other_property: BTreeMap<String, u64>,
    pub digests: BTreeMap<u64, u64>,
    #[serde(default)]
    pub histories_enumerated: u64,
    #[serde(default)]
    pub crash_points_numbered: u64,
    #[serde(default)]
    pub incomplete_histories: u64,
    #[serde(default)]
    pub sched_steps: u64,
    #[serde(default)]
    pub preemptions: u64,
    #[serde(default)]
    pub lock_order_cycles_seen: u64,
    #[serde(default)]
    pub scenarios: u64,
    #[serde(default)]
    pub virtual_secs: u64,
}

fn merge_stats(out: &mut WorkerOut, st: &RunStats) {
    out.ops += st.ops_executed as u64;
    out.blocks_connected += st.blocks_connected;
    out.blocks_disconnected += st.blocks_disconnected;
    out.rpcs += st.rpcs;
    out.crashes += st.crashes;
    out.restarts += st.restarts;
    out.crash_points += st.crash_points_passed;
    for (k, v) in st.probes.iter() {
        *out.probes.entry(k.clone()).or_insert(0) += v;
    }
    for (k, v) in st.faults_fired.iter() {
        *out.faults_fired.entry(k.clone()).or_insert(0) += v;
    }
}

fn now_ms() -> u64 {
    SystemTime::now().duration_since(UNIX_EPOCH).unwrap().as_millis() as u64
}

/// worker <id> <root> <start> <step> <max_index> <deadline_ms> <outfile> [digests]
pub fn cmd_worker(args: &[String]) -> i32 {
    warm_up();
    let id = &args[0];
    let root: u64 = args[1].parse().unwrap();
    let start: u64 = args[2].parse().unwrap();
    let step: u64 = args[3].parse().unwrap();
    let max_index: u64 = args[4].parse().unwrap();
    let deadline: u64 = args[5].parse().unwrap();
    let outfile = &args[6];
    let want_digests = args.get(7).map(|s| s == "digests").unwrap_or(false);
    let thorough = args.get(8).map(|s| s == "thorough").unwrap_or(false);
    let spec = spec(id).unwrap_or_else(|| {
        eprintln!("unknown property {id}");
        std::process::exit(2)
    });
    let known = load_known();
    let mut out = WorkerOut::default();
    if spec.engine == Engine::Conc || spec.engine == Engine::Outage || args.get(9).map(|s| s == "conc").unwrap_or(false) {
        return conc_worker(spec, root, start, step, max_index, deadline, outfile, want_digests, thorough, &known);
    }
    if spec.engine == Engine::Client {
        return client_worker(spec, root, start, step, max_index, deadline, outfile, want_digests, thorough, &known);
    }
    let mut nontrivial: BTreeSet<u64> = BTreeSet::new();
    let mut states: BTreeSet<u64> = BTreeSet::new();
    let mut handled: BTreeSet<String> = BTreeSet::new();
    let mut i = start;
    while i < max_index && now_ms() < deadline {
        if spec.id == "C19" && i % 4 == 3 {
            // every fourth run of C19 drives the bounded index directly (txidx.rs): small windows, blocks without keys
            use crate::txidx::{gen_idx_history, idx_signature, minimise_idx, run_idx, IdxReplay};
            let seed = derive(root, "C19-txidx", i);
            let h = gen_idx_history(seed);
            let res = run_idx(&h);
            out.runs += 1;
            out.ops += res.ops;
            for (k, v) in res.probes.iter() {
                *out.probes.entry(format!("component:{k}")).or_insert(0) += v;
            }
            *out.probes.entry("component:index_history".into()).or_insert(0) += 1;
            if res.nontrivial {
                nontrivial.insert(fnv64(serde_json::to_string(&h).unwrap().as_bytes()));
            }
            if want_digests {
                out.digests.insert(i * 4096, res.digest);
            }
            if let Some(f) = res.found.as_ref() {
                let sig = idx_signature(spec.id, f);
                if is_known_open(&known, spec.id, &sig).is_some() {
                    *out.known_seen.entry(sig.clone()).or_insert(0) += 1;
                } else if !handled.contains(&sig) && handled.len() < 4 {
                    handled.insert(sig.clone());
                    let min = minimise_idx(&h, &sig, 300);
                    let detail = run_idx(&min).found.map(|f| f.detail).unwrap_or_else(|| f.detail.clone());
                    let dir = verif_dir().join("replays");
                    let _ = std::fs::create_dir_all(&dir);
                    let path = dir.join(format!("{}-{}-{}.json", spec.id, seed, sig8(&sig)));
                    let rf = IdxReplay {
                        property: spec.id.to_string(),
                        signature: sig.clone(),
                        detail: detail.clone(),
                        engine: "txindex".into(),
                        idx_history: min,
                    };
                    std::fs::write(&path, serde_json::to_string_pretty(&rf).unwrap()).unwrap();
                    let st = Command::new(std::env::current_exe().unwrap())
                        .arg("--replay")
                        .arg(&path)
                        .stdout(Stdio::piped())
                        .stderr(Stdio::piped())
                        .output()
                        .unwrap();
                    if st.status.code() != Some(1) {
                        eprintln!(
                            "HARNESS ERROR: replay of {} in a fresh process did not reproduce (exit {:?})\n{}",
                            path.display(),
                            st.status.code(),
                            String::from_utf8_lossy(&st.stdout)
                        );
                        std::process::exit(2);
                    }
                    out.violations.push((sig, path.to_string_lossy().to_string(), detail));
                }
            }
            i += step;
            continue;
        }
        let base = history_for(spec, root, i);
        let mut todo: Vec<History> = vec![base.clone()];
        let mut planned = false;
        let mut qi = 0usize;
        while qi < todo.len() {
        let h = todo[qi].clone();
        qi += 1;
        if now_ms() >= deadline && qi > 1 {
            out.incomplete_histories += 1;
            break;
        }
        let res = run_in_thread(&h);
        if spec.engine == Engine::Crash && !planned {
            planned = true;
            let n = res.stats.crash_points_passed;
            let nb = res.stats.crash_points_first_boot.min(n);
            let mut r = Rng::new(derive(base.seed, "crashpts", 0));
            // Points inside the very first start (empty database) are all alike: take one of them, spend the rest of the
            // budget on points that fall inside operations.
            let mut points: Vec<u64> = vec![];
            if nb > 0 {
                points.push(r.range(1, nb));
            }
            if thorough || n - nb <= 12 {
                points.extend(nb + 1..=n);
            } else {
                // half of the sample uniformly, half among the last 24 points (the end of a history is where trackers
                // complete, users are purged and late requests arrive)
                let mut set = BTreeSet::new();
                while set.len() < 6 {
                    set.insert(r.range(nb + 1, n));
                }
                let tail_from = (n.saturating_sub(24)).max(nb + 1);
                let mut guard = 0;
                while set.len() < 12 && guard < 200 {
                    set.insert(r.range(tail_from, n));
                    guard += 1;
                }
                points.extend(set);
            }
            for pt in points {
                let mut hc = base.clone();
                hc.faults.crash_at = vec![pt];
                todo.push(hc);
            }
            out.histories_enumerated += 1;
            out.crash_points_numbered += n;
        }
        out.runs += 1;
        merge_stats(&mut out, &res.stats);
        if res.stats.nontrivial {
            nontrivial.insert(hist_hash(&h));
        }
        states.extend(res.stats.model_states.iter());
        if want_digests {
            out.digests.insert(i * 4096 + qi as u64, res.stats.log_digest);
        }
        if out.samples.len() < 2 && res.stats.nontrivial && start == 0 {
            out.samples.push(json!({"index": i, "seed": h.seed, "cfg": h.cfg, "ops": h.ops.iter().take(40).collect::<Vec<_>>(), "faults": h.faults}));
        }
        // Only the first violation of the target property in a run is judged: later ones are usually its consequences
        // (the model has diverged), and an independent one will show up first under some other seed.
        let mut first_done = false;
        for f in res.found.iter() {
            if f.v.property != spec.id {
                *out.other_property.entry(format!("{}:{}", f.v.property, f.v.clause)).or_insert(0) += 1;
                continue;
            }
            if first_done {
                continue;
            }
            first_done = true;
            let sig = signature(spec.id, f);
            if let Some(_k) = is_known_open(&known, spec.id, &sig) {
                *out.known_seen.entry(sig.clone()).or_insert(0) += 1;
                continue;
            }
            if handled.contains(&sig) || handled.len() >= 4 {
                continue;
            }
            handled.insert(sig.clone());
            // minimise, persist, verify in a fresh process (a hang costs HANG_SECS per attempt and leaves a stuck thread
            // behind each time: only the suffix after the hanging operation is cut)
            let min = if f.v.clause == "hang" {
                let mut m = h.clone();
                m.ops.truncate(f.op_index + 1);
                m
            } else {
                crate::minimize::minimise(&h, spec.id, &sig, 250)
            };
            let dir = verif_dir().join("replays");
            let _ = std::fs::create_dir_all(&dir);
            let path = dir.join(format!("{}-{}-{}.json", spec.id, h.seed, sig8(&sig)));
            let rf = ReplayFile {
                property: spec.id.to_string(),
                signature: sig.clone(),
                detail: f.v.detail.clone(),
                engine: "seq".into(),
                history: min,
            };
            std::fs::write(&path, serde_json::to_string_pretty(&rf).unwrap()).unwrap();
            let st = Command::new(std::env::current_exe().unwrap())
                .arg("--replay")
                .arg(&path)
                .stdout(Stdio::piped())
                .stderr(Stdio::piped())
                .output()
                .unwrap();
            if st.status.code() != Some(1) {
                eprintln!(
                    "HARNESS ERROR: replay of {} in a fresh process did not reproduce (exit {:?})\n{}",
                    path.display(),
                    st.status.code(),
                    String::from_utf8_lossy(&st.stdout)
                );
                std::process::exit(2);
            }
            out.violations.push((sig, path.to_string_lossy().to_string(), f.v.detail.clone()));
        }
        if PROCESS_HAS_STUCK_THREAD.load(std::sync::atomic::Ordering::SeqCst) {
            break;
        }
        }
        if PROCESS_HAS_STUCK_THREAD.load(std::sync::atomic::Ordering::SeqCst) {
            break;
        }
        i += step;
    }
    out.nontrivial_hashes = nontrivial.into_iter().collect();
    out.model_states = states.into_iter().collect();
    std::fs::write(outfile, serde_json::to_vec(&out).unwrap()).unwrap();
    if PROCESS_HAS_STUCK_THREAD.load(std::sync::atomic::Ordering::SeqCst) {
        // a stuck simulation thread is still alive: leave without waiting for it
        std::process::exit(0);
    }
    0
}

fn fnv64(data: &[u8]) -> u64 {
    let mut x: u64 = 0xcbf29ce484222325;
    for b in data {
        x ^= *b as u64;
        x = x.wrapping_mul(0x100000001b3);
    }
    x
}

#[allow(clippy::too_many_arguments)]
fn client_worker(
    spec: &PropSpec,
    root: u64,
    start: u64,
    step: u64,
    max_index: u64,
    deadline: u64,
    outfile: &str,
    want_digests: bool,
    thorough: bool,
    known: &[KnownFinding],
) -> i32 {
    use crate::client::ClientHistory;
    use crate::client_check::{client_signature, gen_client_history, minimise_client, run_client_in_thread, ClientReplay};
    let mut out = WorkerOut::default();
    let mut nontrivial: BTreeSet<u64> = BTreeSet::new();
    let mut handled: BTreeSet<String> = BTreeSet::new();
    let mut i = start;
    while i < max_index && now_ms() < deadline {
        let seed = derive(root, &format!("{}-client", spec.id), i);
        if spec.id == "C18" && i % 3 == 2 {
            // every third run of C18 is a store-level history (store.rs)
            use crate::store::{gen_store_history, minimise_store, run_store_in_thread, StoreReplay};
            let h = gen_store_history(seed);
            let res = run_store_in_thread(&h);
            out.runs += 1;
            out.ops += res.stats.ops;
            for (k, v) in res.stats.probes.iter() {
                *out.probes.entry(k.clone()).or_insert(0) += v;
            }
            *out.faults_fired.entry("store_reload_after_prefix".into()).or_insert(0) += res.stats.ops;
            if res.stats.nontrivial {
                nontrivial.insert(fnv64(serde_json::to_string(&(h.n_towers, h.n_commitments, &h.ops)).unwrap().as_bytes()));
            }
            if want_digests {
                // (client histories use i * 16 + 1.. for their executions; slot 0 is free)
                out.digests.insert(i * 16, res.stats.digest);
            }
            if let Some(f) = res.found.first() {
                let sig = client_signature(spec.id, f);
                if is_known_open(known, spec.id, &sig).is_some() {
                    *out.known_seen.entry(sig.clone()).or_insert(0) += 1;
                } else if !handled.contains(&sig) && handled.len() < 4 {
                    handled.insert(sig.clone());
                    let min = minimise_store(&h, &sig, 150);
                    let dir = verif_dir().join("replays");
                    let _ = std::fs::create_dir_all(&dir);
                    let path = dir.join(format!("{}-{}-{}.json", spec.id, seed, sig8(&sig)));
                    let rf = StoreReplay {
                        property: spec.id.to_string(),
                        signature: sig.clone(),
                        detail: f.detail.clone(),
                        engine: "store".into(),
                        store_history: min,
                    };
                    std::fs::write(&path, serde_json::to_string_pretty(&rf).unwrap()).unwrap();
                    let st = Command::new(std::env::current_exe().unwrap())
                        .arg("--replay")
                        .arg(&path)
                        .stdout(Stdio::piped())
                        .stderr(Stdio::piped())
                        .output()
                        .unwrap();
                    if st.status.code() != Some(1) {
                        eprintln!(
                            "HARNESS ERROR: replay of {} in a fresh process did not reproduce (exit {:?})\n{}",
                            path.display(),
                            st.status.code(),
                            String::from_utf8_lossy(&st.stdout)
                        );
                        std::process::exit(2);
                    }
                    out.violations.push((sig, path.to_string_lossy().to_string(), f.detail.clone()));
                }
            }
            i += step;
            continue;
        }
        let base = gen_client_history(spec.id, seed);
        // The history is first executed as generated (kills only between operations); it passes a number of client-dbm
        // crash points (before/after every durable write and commit). Every other history is then re-executed with the
        // client killed AT one of them (two sampled points; thorough: four), the same way the tower's Crash engine works.
        let mut todo: Vec<ClientHistory> = vec![base.clone()];
        let mut qi = 0usize;
        while qi < todo.len() {
        let h = todo[qi].clone();
        qi += 1;
        let res = run_client_in_thread(&h);
        // (not for C14: its statement is about replies, not kills; a kill between the delivery of a wrong-key
        // acknowledgement and the commit of its proof legitimately loses the proof)
        if qi == 1 && spec.id != "C14" && i % 2 == 0 && res.stats.crash_points > 0 && res.found.iter().all(|f| f.property != spec.id) {
            let mut r = Rng::new(derive(seed, "client-crashpts", 0));
            let n = res.stats.crash_points;
            let k = if thorough { 4 } else { 2 };
            let mut pts = BTreeSet::new();
            let mut guard = 0;
            while (pts.len() as u64) < (k as u64).min(n) && guard < 50 {
                pts.insert(r.range(1, n));
                guard += 1;
            }
            for pt in pts {
                let mut hc = base.clone();
                hc.crash_at = vec![pt];
                todo.push(hc);
            }
            out.crash_points_numbered += n;
            out.histories_enumerated += 1;
        }
        out.runs += 1;
        out.ops += res.stats.ops;
        out.rpcs += res.stats.requests;
        out.virtual_secs += res.stats.virtual_secs;
        out.crashes += res.stats.kills;
        out.crash_points += res.stats.crash_points;
        for (k, v) in res.stats.probes.iter() {
            *out.probes.entry(k.clone()).or_insert(0) += v;
        }
        for (k, v) in res.stats.replies_injected.iter() {
            *out.faults_fired.entry(format!("reply_{k}")).or_insert(0) += v;
        }
        *out.faults_fired.entry("client_kill_between_operations".into()).or_insert(0) += res.stats.kills - res.stats.kills_at_crash_points.min(res.stats.kills);
        *out.faults_fired.entry("client_kill_at_crash_point".into()).or_insert(0) += res.stats.kills_at_crash_points;
        if res.stats.nontrivial {
            nontrivial.insert(fnv64(serde_json::to_string(&(&h.cfg, &h.ops, &h.crash_at)).unwrap().as_bytes()));
        }
        if want_digests {
            out.digests.insert(i * 16 + qi as u64, res.stats.digest);
        }
        if out.samples.len() < 2 && start == 0 && res.stats.nontrivial {
            out.samples.push(json!({"index": i, "seed": h.seed, "cfg": h.cfg, "ops": h.ops.iter().take(40).collect::<Vec<_>>()}));
        }
        let mut first_done = false;
        for f in res.found.iter() {
            if f.property != spec.id {
                *out.other_property.entry(format!("{}:{}", f.property, f.clause)).or_insert(0) += 1;
                continue;
            }
            if first_done {
                continue;
            }
            first_done = true;
            let sig = client_signature(spec.id, f);
            if is_known_open(known, spec.id, &sig).is_some() {
                *out.known_seen.entry(sig.clone()).or_insert(0) += 1;
                continue;
            }
            if handled.contains(&sig) || handled.len() >= 4 {
                continue;
            }
            handled.insert(sig.clone());
            // (a run that blocks for real costs a minute per attempt and leaves a stuck thread behind: not minimised)
            let min = if f.clause == "client_wedged_for_real" { h.clone() } else { minimise_client(&h, spec.id, &sig, 120) };
            let dir = verif_dir().join("replays");
            let _ = std::fs::create_dir_all(&dir);
            let path = dir.join(format!("{}-{}-{}.json", spec.id, seed, sig8(&sig)));
            let rf = ClientReplay {
                property: spec.id.to_string(),
                signature: sig.clone(),
                detail: f.detail.clone(),
                engine: "client".into(),
                client_history: min,
            };
            std::fs::write(&path, serde_json::to_string_pretty(&rf).unwrap()).unwrap();
            let st = Command::new(std::env::current_exe().unwrap())
                .arg("--replay")
                .arg(&path)
                .stdout(Stdio::piped())
                .stderr(Stdio::piped())
                .output()
                .unwrap();
            if st.status.code() != Some(1) {
                eprintln!(
                    "HARNESS ERROR: replay of {} in a fresh process did not reproduce (exit {:?})\n{}",
                    path.display(),
                    st.status.code(),
                    String::from_utf8_lossy(&st.stdout)
                );
                std::process::exit(2);
            }
            out.violations.push((sig, path.to_string_lossy().to_string(), f.detail.clone()));
        }
        if PROCESS_HAS_STUCK_THREAD.load(std::sync::atomic::Ordering::SeqCst) {
            break;
        }
        }
        if PROCESS_HAS_STUCK_THREAD.load(std::sync::atomic::Ordering::SeqCst) {
            out.nontrivial_hashes = nontrivial.into_iter().collect();
            std::fs::write(outfile, serde_json::to_vec(&out).unwrap()).unwrap();
            std::process::exit(0);
        }
        i += step;
    }
    out.nontrivial_hashes = nontrivial.into_iter().collect();
    std::fs::write(outfile, serde_json::to_vec(&out).unwrap()).unwrap();
    0
}

#[allow(clippy::too_many_arguments)]
fn conc_worker(
    spec: &PropSpec,
    root: u64,
    start: u64,
    step: u64,
    max_index: u64,
    deadline: u64,
    outfile: &str,
    want_digests: bool,
    thorough: bool,
    known: &[KnownFinding],
) -> i32 {
    use crate::conc_check::{explore_scenario, gen_scenario, minimise_scenario, ConcReplay};
    let mut out = WorkerOut::default();
    let mut nontrivial: BTreeSet<u64> = BTreeSet::new();
    let mut handled: BTreeSet<String> = BTreeSet::new();
    let n_sched = if thorough { 16 } else { 6 };
    let mut i = start;
    while i < max_index && now_ms() < deadline {
        let seed = derive(root, &format!("{}-conc", spec.id), i);
        let outage = spec.engine == Engine::Outage;
        let sc = if outage { crate::conc_check::gen_outage_scenario(spec.id, seed) } else { gen_scenario(spec.id, seed) };
        let o = if outage { crate::conc_check::explore_outage(&sc, thorough) } else { explore_scenario(&sc, n_sched) };
        out.runs += o.runs;
        out.ops += (sc.prefix.len() + sc.threads.iter().map(|t| t.len()).sum::<usize>()) as u64 * o.runs;
        out.sched_steps += o.steps;
        out.preemptions += o.preemptions;
        out.lock_order_cycles_seen += o.lock_cycles;
        out.scenarios += 1;
        for (k, v) in o.fired.iter() {
            *out.faults_fired.entry(k.clone()).or_insert(0) += v;
        }
        for (k, v) in o.probes.iter() {
            *out.probes.entry(k.clone()).or_insert(0) += v;
        }
        let sc_hash = fnv64(serde_json::to_string(&sc).unwrap().as_bytes());
        let mut dig = sc_hash;
        for tr in o.schedules.iter() {
            let bytes: Vec<u8> = tr.iter().map(|x| *x as u8).collect();
            let h = fnv64(&bytes) ^ sc_hash.rotate_left(17);
            nontrivial.insert(h);
            dig = dig.rotate_left(5) ^ h;
        }
        for f in o.found.iter() {
            dig = dig.rotate_left(7) ^ fnv64(f.signature.as_bytes());
        }
        if want_digests {
            out.digests.insert(i, dig);
        }
        if out.samples.len() < 2 && start == 0 {
            out.samples.push(json!({"index": i, "scenario": sc, "schedules_explored": o.schedules.iter().take(3).collect::<Vec<_>>()}));
        }
        let mut first_done = false;
        for f in o.found.iter() {
            if f.property != spec.id {
                *out.other_property.entry(f.signature.clone()).or_insert(0) += 1;
                continue;
            }
            if first_done {
                continue;
            }
            first_done = true;
            if is_known_open(known, spec.id, &f.signature).is_some() {
                *out.known_seen.entry(f.signature.clone()).or_insert(0) += 1;
                continue;
            }
            if handled.contains(&f.signature) || handled.len() >= 4 {
                continue;
            }
            handled.insert(f.signature.clone());
            let (min_sc, strat) = if outage {
                // the outage point and schedule are part of the finding: keep the scenario as found
                let mut s2 = sc.clone();
                // recover the outage placement from the detail line ("outage from rpc #n" / "block source call #n")
                if let Some(rest) = f.detail.strip_prefix("outage from rpc #") {
                    s2.down_at_rpc = rest.split(' ').next().and_then(|x| x.parse().ok());
                } else if let Some(rest) = f.detail.strip_prefix("outage from block source call #") {
                    s2.down_at_bs = rest.split(' ').next().and_then(|x| x.parse().ok());
                }
                (s2, f.strat.clone())
            } else {
                minimise_scenario(&sc, spec.id, &f.signature, n_sched, 40)
            };
            let dir = verif_dir().join("replays");
            let _ = std::fs::create_dir_all(&dir);
            let path = dir.join(format!("{}-{}-{}.json", spec.id, seed, sig8(&f.signature)));
            let rf = ConcReplay {
                property: spec.id.to_string(),
                signature: f.signature.clone(),
                detail: f.detail.clone(),
                engine: if outage { "outage".into() } else { "conc".into() },
                scenario: min_sc,
                strategy: strat.or(f.strat.clone()),
            };
            std::fs::write(&path, serde_json::to_string_pretty(&rf).unwrap()).unwrap();
            let st = Command::new(std::env::current_exe().unwrap())
                .arg("--replay")
                .arg(&path)
                .stdout(Stdio::piped())
                .stderr(Stdio::piped())
                .output()
                .unwrap();
            if st.status.code() != Some(1) {
                eprintln!(
                    "HARNESS ERROR: replay of {} in a fresh process did not reproduce (exit {:?})\n{}",
                    path.display(),
                    st.status.code(),
                    String::from_utf8_lossy(&st.stdout)
                );
                std::process::exit(2);
            }
            out.violations.push((f.signature.clone(), path.to_string_lossy().to_string(), f.detail.clone()));
        }
        i += step;
    }
    out.nontrivial_hashes = nontrivial.into_iter().collect();
    std::fs::write(outfile, serde_json::to_vec(&out).unwrap()).unwrap();
    0
}

pub struct BatchResult {
    pub merged: WorkerOut,
    pub wall: f64,
    pub jobs: usize,
}

pub fn run_batch(id: &str, root: u64, max_runs: u64, secs: u64, jobs: usize, digests: bool, thorough: bool, conc: bool) -> BatchResult {
    let t0 = Instant::now();
    let deadline = now_ms() + secs * 1000;
    let tmp = PathBuf::from(format!("/dev/shm/teos-sim-batch-{}", std::process::id()));
    let _ = std::fs::remove_dir_all(&tmp);
    std::fs::create_dir_all(&tmp).unwrap();
    let exe = std::env::current_exe().unwrap();
    let mut children = vec![];
    for j in 0..jobs {
        let outfile = tmp.join(format!("w{j}.json"));
        let mut c = Command::new(&exe);
        c.arg("worker")
            .arg(id)
            .arg(root.to_string())
            .arg(j.to_string())
            .arg(jobs.to_string())
            .arg(max_runs.to_string())
            .arg(deadline.to_string())
            .arg(&outfile);
        c.arg(if digests { "digests" } else { "nodigests" });
        c.arg(if thorough { "thorough" } else { "quick" });
        c.arg(if conc { "conc" } else { "default" });
        children.push((c.spawn().expect("spawn worker"), outfile));
    }
    let mut merged = WorkerOut::default();
    let mut nontrivial: BTreeSet<u64> = BTreeSet::new();
    let mut states: BTreeSet<u64> = BTreeSet::new();
    // Watchdog: a worker that is still running long after the deadline is stuck in a simulation that blocks for real
    // (a fault left armed outside a scheduled phase, code under test waiting on a real condition variable): that is a
    // harness error (exit 2), never a silent hang.
    let give_up_at = deadline + 1000 * secs.max(300);
    let mut pids: Vec<u32> = children.iter().map(|c| c.0.id()).collect();
    for (mut ch, outfile) in children {
        let st = loop {
            match ch.try_wait().unwrap() {
                Some(st) => break st,
                None => {
                    if now_ms() > give_up_at {
                        eprintln!("HARNESS ERROR: a worker is still running {}s after its deadline; killing the batch", (now_ms() - deadline) / 1000);
                        for p in pids.iter() {
                            unsafe {
                                libc::kill(*p as i32, libc::SIGKILL);
                            }
                        }
                        let _ = std::fs::remove_dir_all(&tmp);
                        std::process::exit(2);
                    }
                    std::thread::sleep(std::time::Duration::from_millis(50));
                }
            }
        };
        pids.retain(|p| *p != ch.id());
        if !st.success() {
            eprintln!("HARNESS ERROR: worker exited with {:?}", st.code());
            let _ = std::fs::remove_dir_all(&tmp);
            std::process::exit(2);
        }
        let w: WorkerOut = serde_json::from_slice(&std::fs::read(&outfile).unwrap()).unwrap();
        merged.runs += w.runs;
        merged.ops += w.ops;
        merged.blocks_connected += w.blocks_connected;
        merged.blocks_disconnected += w.blocks_disconnected;
        merged.rpcs += w.rpcs;
        merged.crashes += w.crashes;
        merged.restarts += w.restarts;
        merged.crash_points += w.crash_points;
        merged.histories_enumerated += w.histories_enumerated;
        merged.crash_points_numbered += w.crash_points_numbered;
        merged.incomplete_histories += w.incomplete_histories;
        merged.sched_steps += w.sched_steps;
        merged.preemptions += w.preemptions;
        merged.lock_order_cycles_seen += w.lock_order_cycles_seen;
        merged.scenarios += w.scenarios;
        merged.virtual_secs += w.virtual_secs;
        for (k, v) in w.probes {
            *merged.probes.entry(k).or_insert(0) += v;
        }
        for (k, v) in w.faults_fired {
            *merged.faults_fired.entry(k).or_insert(0) += v;
        }
        for (k, v) in w.known_seen {
            *merged.known_seen.entry(k).or_insert(0) += v;
        }
        for (k, v) in w.other_property {
            *merged.other_property.entry(k).or_insert(0) += v;
        }
        nontrivial.extend(w.nontrivial_hashes);
        states.extend(w.model_states);
        merged.samples.extend(w.samples);
        merged.violations.extend(w.violations);
        merged.digests.extend(w.digests);
    }
    let _ = std::fs::remove_dir_all(&tmp);
    merged.nontrivial_hashes = nontrivial.into_iter().collect();
    merged.model_states = states.into_iter().collect();
    BatchResult {
        merged,
        wall: t0.elapsed().as_secs_f64(),
        jobs,
    }
}

fn merge_into(m: &mut WorkerOut, w: WorkerOut) {
    m.runs += w.runs;
    m.ops += w.ops;
    m.blocks_connected += w.blocks_connected;
    m.blocks_disconnected += w.blocks_disconnected;
    m.rpcs += w.rpcs;
    m.sched_steps += w.sched_steps;
    m.preemptions += w.preemptions;
    m.lock_order_cycles_seen += w.lock_order_cycles_seen;
    m.scenarios += w.scenarios;
    for (k, v) in w.probes {
        *m.probes.entry(k).or_insert(0) += v;
    }
    for (k, v) in w.faults_fired {
        *m.faults_fired.entry(k).or_insert(0) += v;
    }
    for (k, v) in w.known_seen {
        *m.known_seen.entry(k).or_insert(0) += v;
    }
    for (k, v) in w.other_property {
        *m.other_property.entry(k).or_insert(0) += v;
    }
    let mut set: BTreeSet<u64> = m.nontrivial_hashes.iter().cloned().collect();
    set.extend(w.nontrivial_hashes);
    m.nontrivial_hashes = set.into_iter().collect();
    m.samples.extend(w.samples);
    m.violations.extend(w.violations);
}

fn arg_val(args: &[String], name: &str) -> Option<String> {
    args.iter().position(|a| a == name).and_then(|i| args.get(i + 1).cloned())
}

pub fn cmd_check(args: &[String]) -> i32 {
    let id = args.first().cloned().unwrap_or_default();
    let Some(spec) = spec(&id) else {
        eprintln!("unknown or unclaimed property {id}");
        return 2;
    };
    let tier = arg_val(args, "--tier")
        .or_else(|| std::env::var("VERIF_TIER").ok())
        .unwrap_or_else(|| "quick".into());
    let thorough = tier == "thorough";
    let secs: u64 = arg_val(args, "--secs")
        .and_then(|s| s.parse().ok())
        .unwrap_or(if thorough { spec.thorough_secs } else { spec.quick_secs });
    let runs: u64 = arg_val(args, "--runs")
        .and_then(|s| s.parse().ok())
        .unwrap_or(if thorough { u64::MAX / 4 } else { spec.quick_runs });
    let jobs: usize = arg_val(args, "--jobs").and_then(|s| s.parse().ok()).unwrap_or_else(|| {
        std::thread::available_parallelism().map(|n| n.get()).unwrap_or(8).min(16)
    });
    let root = root_seed();
    println!("VERIF_SEED={root} property={id} tier={tier} budget={secs}s jobs={jobs}");

    // Reduced determinism self-test first: nothing a nondeterministic simulator reports can be trusted.
    let det_n = if thorough { 400 } else { 64 };
    if let Err(e) = determinism_check(&id, root, det_n) {
        eprintln!("HARNESS ERROR: nondeterminism detected: {e}");
        return 2;
    }

    let seq_secs = match id.as_str() {
        "C11" => secs / 2,
        "C08" => secs * 3 / 4,
        "C04" | "C02" => secs * 4 / 5,
        _ => secs,
    };
    let mut b = run_batch(&id, root, runs, seq_secs, jobs, false, thorough, false);
    if id == "C02" {
        // last fifth of the budget: requests racing with the block that purges their owner (nothing may be submitted for an
        // appointment once the purge of its owner has been committed)
        let c = run_batch(&id, root, u64::MAX / 4, secs - seq_secs, jobs, false, thorough, true);
        merge_into(&mut b.merged, c.merged);
        b.wall += c.wall;
    }
    if id == "C04" {
        // last fifth of the budget: requests falling between two chain events of one poll (a disconnection and the next
        // connection) and racing with them; a tracker recorded as confirmed must name the true height of its penalty
        let c = run_batch(&id, root, u64::MAX / 4, secs - seq_secs, jobs, false, thorough, true);
        merge_into(&mut b.merged, c.merged);
        b.wall += c.wall;
    }
    if id == "C08" {
        // last quarter of the budget: requests racing with block events under the scheduler (the start block of a
        // receipt must be the height at which the request entered its critical section)
        let c = run_batch(&id, root, u64::MAX / 4, secs - seq_secs, jobs, false, thorough, true);
        merge_into(&mut b.merged, c.merged);
        b.wall += c.wall;
    }
    if id == "C11" {
        // second half of the budget: concurrent scenarios (deadlock search, aborts under interleavings, liveness probe)
        let c = run_batch(&id, root, u64::MAX / 4, secs / 2, jobs, false, thorough, true);
        merge_into(&mut b.merged, c.merged);
        b.wall += c.wall;
    }
    let known = load_known();
    let m = &b.merged;

    // Violations: one line per distinct signature.
    let mut seen = BTreeSet::new();
    let mut n_viol = 0;
    for (sig, path, detail) in m.violations.iter() {
        if !seen.insert(sig.clone()) {
            let _ = std::fs::remove_file(path);
            continue;
        }
        n_viol += 1;
        println!("VIOLATION property={id} replay={path}");
        println!("  signature: {sig}");
        println!("  detail: {detail}");
    }
    for (sig, n) in m.known_seen.iter() {
        if let Some(k) = is_known_open(&known, &id, sig) {
            println!("KNOWN-FINDING: property={id} {} [seen in {n} runs; signature {sig}]", k.description);
        }
    }
    let mut zero_probes = vec![];
    for p in expected_probes(&id) {
        if m.probes.get(*p).cloned().unwrap_or(0) == 0 {
            zero_probes.push(*p);
        }
    }
    if !zero_probes.is_empty() {
        println!("WARNING: probes never hit in this run: {zero_probes:?}");
    }

    let per_hour = if b.wall > 0.0 { (m.runs as f64 / b.wall * 3600.0) as u64 } else { 0 };
    let tower_real = vec!["Gatekeeper", "Watcher", "Responder", "Carrier", "TxIndex", "tower DBM + bundled SQLite", "InternalAPI (public+private service impls)", "ChainMonitor::poll_best_tip", "lightning_block_sync SpvClient/ChainPoller/UnboundedCache", "bitcoincore_rpc request/reply codec", "teos_common receipts + cryptography"];
    let (assumptions, real_components, stub_components): (Vec<&str>, Vec<&str>, Vec<&str>) = match spec.engine {
        Engine::Client => (
            vec![
                "SQLite commit atomicity and durability are trusted (a kill loses nothing that a statement / transaction had committed)",
                "the plugin's main() wiring (options, hook and command registration, RetryManager task) is restated in the harness around the real handlers",
                "towers are scripted fakes behind the guarded SimNet seam of net::http::request: reqwest, TLS, Tor and sockets are not in the loop",
                "all timers read tokio's paused clock (tokio::time::Instant and backoff's clock are switched by the guarded imports in retrier.rs)",
            ],
            vec!["watchtower-plugin main.rs handlers (include!d)", "WTClient", "plugin DBM + bundled SQLite", "RetryManager / Retrier + backoff", "net::http reply classification (process_post_response, send_appointment, register)", "cln_plugin framing and dispatch over in-memory pipes", "teos_common receipts + cryptography + serde adapters", "tokio current-thread runtime with paused clock"],
            vec!["lightningd (scripted JSON-RPC peer over pipes)", "towers (scripted FakeTower replies through SimNet)", "reqwest / sockets / TLS / Tor", "plugin main() option parsing (restated)"],
        ),
        _ if id == "C15" => (
            vec![
                "SQLite commit atomicity and durability are trusted",
                "SimNode's sendrawtransaction/getrawtransaction verdict table follows Bitcoin Core's documented behaviour",
                "teos/src/main.rs wiring is restated in the harness; the HTTP front is served by hyper::server::conn::Http over tokio::io::duplex instead of warp::serve on a TCP socket; the gRPC hop is a real tonic Channel and Server over another duplex pipe",
                "requests are well-framed HTTP/1.1 (framing errors are hyper's business); TLS, Tor and TCP are not in the loop; the remote address seen by the handlers is None",
                "the documented error codes are those of teos-common/src/errors.rs other than 255; which of them answers which malformation is not judged",
            ],
            {
                let mut v = vec!["api::http router, handlers, handle_rejection, match_status (via guarded verif_router)", "warp filters + hyper HTTP/1.1 server", "tonic client Channel + Server (PublicTowerServicesServer) incl. prost codec", "teos_common serde adapters (hex, reversed hex, status)"];
                v.extend(tower_real.iter());
                v
            },
            vec!["bitcoind (SimNode model)", "TCP sockets / TLS / Tor", "main.rs wiring (restated)"],
        ),
        _ => (
            vec![
                "SQLite commit atomicity and durability are trusted (crash granularity: one SQL statement / one explicit transaction)",
                "SimNode's sendrawtransaction/getrawtransaction verdict table follows Bitcoin Core's documented behaviour",
                "teos/src/main.rs wiring is restated in the harness (listener order gatekeeper->watcher->responder, 100/6-block caches, backlog poll before the API, persisted starting block)",
                "tonic transport, TLS, Tor, HTTP socket layer are not in the loop for this property: requests are calls of the InternalAPI service methods",
            ],
            tower_real.clone(),
            vec!["bitcoind (SimNode model)", "BitcoindClient HTTP wrapper (SimNode implements BlockSource)", "main.rs wiring (restated)", "tonic/warp transports"],
        ),
    };
    let evidence = json!({
        "property_id": id,
        "tier": if thorough { "thorough" } else { "quick" },
        "seed": root,
        "level": spec.level,
        "wall_s": b.wall,
        "violations": n_viol,
        "assumptions": assumptions,
        "coverage": {
            "evaluations": m.runs,
            "distinct_nontrivial": m.nontrivial_hashes.len(),
            "rule": spec.rule,
            "samples": m.samples.iter().take(2).collect::<Vec<_>>(),
            "runs_per_hour": per_hour,
            "seeds_per_hour": per_hour,
            "operations_executed": m.ops,
            "simulated_blocks_connected": m.blocks_connected,
            "simulated_blocks_disconnected": m.blocks_disconnected,
            "node_rpcs_observed": m.rpcs,
            "tower_restarts": m.restarts,
            "crashes_injected": m.crashes,
            "crash_points_passed": m.crash_points,
            "histories_with_crash_points_numbered": m.histories_enumerated,
            "crash_points_numbered_in_dry_runs": m.crash_points_numbered,
            "histories_cut_short_by_the_time_budget": m.incomplete_histories,
            "concurrent_scenarios": m.scenarios,
            "simulated_client_time_seconds": m.virtual_secs,
            "scheduler_steps": m.sched_steps,
            "preemptions": m.preemptions,
            "interleavings_distinct": if spec.engine == Engine::Conc || spec.engine == Engine::Outage { m.nontrivial_hashes.len() as u64 } else { m.scenarios },
            "schedules_whose_lock_order_graph_had_a_cycle": m.lock_order_cycles_seen,
            "faults_fired": m.faults_fired,
            "probes": m.probes,
            "probes_never_hit": zero_probes,
            "model_states_distinct": m.model_states.len(),
            "known_findings_seen": m.known_seen,
            "violations_of_other_properties_seen_not_reported_here": m.other_property,
            "determinism_selftest_seeds": det_n,
            "worker_processes": b.jobs,
            "real_components": real_components,
            "stub_components": stub_components,
            "exhaustive": false
        }
    });
    let ev_dir = verif_dir().join("evidence");
    let _ = std::fs::create_dir_all(&ev_dir);
    let mut f = std::fs::File::create(ev_dir.join(format!("{id}.json"))).unwrap();
    f.write_all(serde_json::to_string_pretty(&evidence).unwrap().as_bytes()).unwrap();
    println!(
        "runs={} nontrivial_distinct={} wall={:.1}s runs/h={} blocks={} rpcs={} violations={}",
        m.runs,
        m.nontrivial_hashes.len(),
        b.wall,
        per_hour,
        m.blocks_connected,
        m.rpcs,
        n_viol
    );
    if n_viol > 0 {
        1
    } else {
        0
    }
}

pub fn expected_probes(id: &str) -> &'static [&'static str] {
    match id {
        "C01" => &["breach_in_block", "add_triggered_in_cache", "two_users_one_locator_in_block", "breach_invalid_blob", "breach_rejected_by_node", "breach_penalty_already_in_chain", "multi_block_poll", "appointment_update", "trigger_in_cache_6th_block", "trigger_in_cache_newest_block"],
        "C02" => &["breach_in_block", "user_purged", "block_disconnected", "reannounce_after_reorg"],
        "C04" => &["tracker_completed", "penalty_confirmed", "reannounce_after_reorg", "tracker_rejected_on_resubmission", "block_disconnected"],
        "C06" => &["add_auth_failure", "get_auth_failure", "subinfo_auth_failure", "two_users_one_locator_in_block"],
        "C07" => &["appointment_update", "update_shrinks", "multi_slot_blob", "empty_blob_accepted", "add_not_enough_slots", "tracker_completed", "renewal"],
        "C08" => &["appointment_update", "registration", "renewal", "add_triggered_in_cache"],
        "C09" => &["user_purged", "add_expired", "renewal", "block_disconnected"],
        "C15" => &["http_refusal_expected", "http_meaning_kept", "http_503", "http_status:200", "http_status:400", "http_status:401", "http_status:404", "http_status:405", "http_status:411", "http_status:413", "http_code:1", "http_code:2", "http_code:3", "http_code:4", "http_code:5", "http_code:6", "http_code:7", "http_code:32", "http_code:35", "http_code:36", "http_code:65", "add_triggered_in_cache", "add_expired", "add_not_enough_slots"],
        _ => &[],
    }
}

fn determinism_check(id: &str, root: u64, n: u64) -> Result<(), String> {
    let a = run_batch(id, root, n, 600, 3, true, false, false);
    let b = run_batch(id, root, n, 600, 7, true, false, false);
    // A simulation that blocks for real ends its worker early (the finding is reported by the main batch): the digests
    // of the runs that were executed are still compared below.
    // (a simulation blocked for real -- a sequential `hang`, a wedged client -- ends its worker process early: fewer
    // digests are not nondeterminism then; the main batch reports the hang itself)
    let stuck = |r: &BatchResult| {
        r.merged.violations.iter().any(|v| v.0.contains("|hang|") || v.0.contains("client_wedged_for_real"))
            || r.merged.other_property.keys().any(|k| k.contains("client_wedged_for_real"))
    };
    let hung = stuck(&a) || stuck(&b);
    if !hung && ((a.merged.digests.len() as u64) < n || a.merged.digests.len() != b.merged.digests.len()) {
        return Err(format!("expected >= {n} digests, got {} and {}", a.merged.digests.len(), b.merged.digests.len()));
    }
    for (i, d) in a.merged.digests.iter() {
        if b.merged.digests.get(i).map(|x| x != d).unwrap_or(!hung) {
            return Err(format!("run index {i}: event-log digest differs between two executions"));
        }
    }
    // A third execution with many workers: most of the runs are then the first simulation of their process, whereas
    // with 3 workers almost all of them are later ones (this is the comparison that would have caught the first-run leak
    // described in DESIGN.md 8.5).
    let c = run_batch(id, root, n, 600, 32, true, false, false);
    let hung = hung || stuck(&c);
    for (i, d) in a.merged.digests.iter() {
        if c.merged.digests.get(i).map(|x| x != d).unwrap_or(!hung) {
            return Err(format!("run index {i}: event-log digest differs between an early and a late execution within a process"));
        }
    }
    for (_, path, _) in c.merged.violations.iter() {
        let _ = std::fs::remove_file(path);
    }
    // Clean up replay files that the self-test batches may have written (the main batch rewrites them).
    for (_, path, _) in a.merged.violations.iter().chain(b.merged.violations.iter()) {
        let _ = std::fs::remove_file(path);
    }
    Ok(())
}

pub fn cmd_selftest(args: &[String]) -> i32 {
    let n: u64 = arg_val(args, "--runs").and_then(|s| s.parse().ok()).unwrap_or(500);
    let root = root_seed();
    let mut bad = 0;
    for s in SPECS {
        match determinism_check(s.id, root, n) {
            Ok(()) => println!("determinism {}: {n} seeds x 2 executions (3, 7 and 32 worker processes): identical", s.id),
            Err(e) => {
                println!("determinism {}: FAILED: {e}", s.id);
                bad += 1;
            }
        }
    }
    if bad > 0 {
        2
    } else {
        0
    }
}

pub fn cmd_replay(args: &[String]) -> i32 {
    warm_up();
    let Some(path) = args.first() else { return 2 };
    if let Ok(text) = std::fs::read_to_string(path) {
        if let Ok(ir) = serde_json::from_str::<crate::txidx::IdxReplay>(&text) {
            let res = crate::txidx::run_idx(&ir.idx_history);
            let hit = res.found.filter(|f| crate::txidx::idx_signature(&ir.property, f) == ir.signature);
            return match hit {
                Some(f) => {
                    println!("VIOLATION property={} replay={}", ir.property, path);
                    println!("  signature: {}", ir.signature);
                    println!("  at op #{}: {}", f.op_index, f.detail);
                    1
                }
                None => {
                    println!("replay {path}: violation with signature '{}' NOT reproduced", ir.signature);
                    0
                }
            };
        }
        if let Ok(sr) = serde_json::from_str::<crate::store::StoreReplay>(&text) {
            let res = crate::store::run_store_in_thread(&sr.store_history);
            let hit = res
                .found
                .first()
                .filter(|f| crate::client_check::client_signature(&sr.property, f) == sr.signature);
            return match hit {
                Some(f) => {
                    println!("VIOLATION property={} replay={}", sr.property, path);
                    println!("  signature: {}", sr.signature);
                    println!("  at op #{} ({}): {}", f.op_index, f.op_kind, f.detail);
                    1
                }
                None => {
                    println!("replay {path}: violation with signature '{}' NOT reproduced", sr.signature);
                    0
                }
            };
        }
        if let Ok(cr) = serde_json::from_str::<crate::client_check::ClientReplay>(&text) {
            let res = crate::client_check::run_client_in_thread(&cr.client_history);
            if std::env::var("SIM_DEBUG").is_ok() {
                for f in res.found.iter() {
                    println!("  all: {} {} at op #{} ({}): {}", f.property, f.clause, f.op_index, f.op_kind, f.detail);
                }
                println!("  probes: {:?} replies: {:?}", res.stats.probes, res.stats.replies_injected);
            }
            let hit = res
                .found
                .iter()
                .find(|f| f.property == cr.property)
                .filter(|f| crate::client_check::client_signature(&cr.property, f) == cr.signature);
            return match hit {
                Some(f) => {
                    println!("VIOLATION property={} replay={}", cr.property, path);
                    println!("  signature: {}", cr.signature);
                    println!("  at op #{} ({}): {}", f.op_index, f.op_kind, f.detail);
                    1
                }
                None => {
                    println!("replay {path}: violation with signature '{}' NOT reproduced", cr.signature);
                    0
                }
            };
        }
        if let Ok(cr) = serde_json::from_str::<crate::conc_check::ConcReplay>(&text) {
            let r = if cr.engine == "outage" {
                crate::conc_check::recheck_outage(&cr.scenario, &cr.strategy, &cr.signature)
            } else {
                crate::conc_check::recheck(&cr.scenario, &cr.strategy, &cr.property, &cr.signature)
            };
            return match r {
                Some(detail) => {
                    println!("VIOLATION property={} replay={}", cr.property, path);
                    println!("  signature: {}", cr.signature);
                    println!("  detail: {detail}");
                    1
                }
                None => {
                    println!("replay {path}: violation with signature '{}' NOT reproduced", cr.signature);
                    0
                }
            };
        }
    }
    let rf: ReplayFile = match std::fs::read_to_string(path).map_err(|e| e.to_string()).and_then(|s| serde_json::from_str(&s).map_err(|e| e.to_string())) {
        Ok(r) => r,
        Err(e) => {
            eprintln!("cannot read replay file {path}: {e}");
            return 2;
        }
    };
    let res = run_in_thread(&rf.history);
    let mut hit = false;
    for f in res.found.iter().filter(|f| f.v.property == rf.property).take(1) {
        {
            let sig = signature(&rf.property, f);
            if sig == rf.signature {
                if !hit {
                    println!("VIOLATION property={} replay={}", rf.property, path);
                    println!("  signature: {sig}");
                }
                hit = true;
                println!("  at op #{} ({}): {}", f.op_index, f.op_kind, f.v.detail);
            }
        }
    }
    if std::env::var("SIM_DEBUG").is_ok() {
        for f in res.found.iter() {
            println!("  all: {} {} at op #{} ({}): {}", f.v.property, f.v.clause, f.op_index, f.op_kind, f.v.detail);
        }
        println!("  probes: {:?}", res.stats.probes);
    }
    if hit {
        1
    } else {
        println!("replay {path}: violation with signature '{}' NOT reproduced ({} other findings)", rf.signature, res.found.len());
        for f in res.found.iter() {
            println!("  other: {} {} at op #{}: {}", f.v.property, f.v.clause, f.op_index, f.v.detail);
        }
        0
    }
}

pub fn cmd_gen(args: &[String]) -> i32 {
    let spec = spec(&args[0]).unwrap();
    let idx: u64 = args[1].parse().unwrap();
    let h = history_for(spec, root_seed(), idx);
    println!("{}", serde_json::to_string_pretty(&h).unwrap());
    0
}

/// Executes one small simulation of every engine and throws the results away. Lazily initialised process-wide state
/// (the cached initial chain of the node model, one-time initialisations inside dependencies) is built by whichever
/// simulation runs first, and building it creates hash maps in that simulation's thread, which shifts the hash keys of
/// everything created later in that thread: the first simulation of a process would not behave like the same
/// simulation run later (found when a C12 replay did not reproduce in a fresh process). After the warm-up every
/// simulation is a "later" one.
pub fn warm_up() {
    let _ = std::thread::spawn(|| {
        let _ = crate::node::SimNode::new(crate::events::EventLog::new(), 101, false);
    })
    .join();
    let h = gen::generate("C01", 0x5eed_0001, Profile::Breach);
    let _ = run_in_thread(&h);
    let h = gen::generate("C15", 0x5eed_0002, Profile::Http);
    let _ = run_in_thread(&h);
    let sc = crate::conc_check::gen_scenario("C10", 0x5eed_0003);
    let _ = crate::conc::run_scenario(&sc, Some(crate::sched::Strategy::Random), None, 1, true);
    let ch = crate::client_check::gen_client_history("C05", 0x5eed_0004);
    let _ = crate::client_check::run_client_in_thread(&ch);
    let sh = crate::store::gen_store_history(0x5eed_0005);
    let _ = crate::store::run_store_in_thread(&sh);
}

/// find <Cxx> <seed>: which run index of the batch has this seed (debugging aid)
pub fn cmd_find(args: &[String]) -> i32 {
    let (Some(id), Some(seed)) = (args.first(), args.get(1).and_then(|s| s.parse::<u64>().ok())) else { return 2 };
    for i in 0..5_000_000u64 {
        for label in [format!("{id}-conc"), format!("{id}-client"), id.to_string()] {
            if derive(root_seed(), &label, i) == seed {
                println!("{label} index {i}");
                return 0;
            }
        }
    }
    println!("not found");
    1
}

pub fn cmd_one(args: &[String]) -> i32 {
    warm_up();
    let spec = spec(&args[0]).unwrap();
    let idx: u64 = args[1].parse().unwrap();
    if spec.engine == Engine::Client {
        let seed = derive(root_seed(), &format!("{}-client", spec.id), idx);
        if spec.id == "C18" && idx % 3 == 2 {
            let h = crate::store::gen_store_history(seed);
            println!("{}", serde_json::to_string(&h).unwrap());
            for k in 0..3 {
                let res = crate::store::run_store_in_thread(&h);
                println!("run {k}: digest={:x} ops={} found={:?}", res.stats.digest, res.stats.ops, res.found.iter().map(|f| f.clause.clone()).collect::<Vec<_>>());
            }
            return 0;
        }
        let h = crate::client_check::gen_client_history(spec.id, seed);
        println!("{}", serde_json::to_string(&h).unwrap());
        let t0 = Instant::now();
        let res = crate::client_check::run_client_in_thread(&h);
        println!("time={:?} requests={} virtual_secs={} kills={} digest={:x} probes={:?}", t0.elapsed(), res.stats.requests, res.stats.virtual_secs, res.stats.kills, res.stats.digest, res.stats.probes);
        for f in res.found.iter() {
            println!("FOUND {} {} at op #{} ({}): {}", f.property, f.clause, f.op_index, f.op_kind, f.detail);
        }
        return 0;
    }
    if spec.engine == Engine::Outage {
        let seed = derive(root_seed(), &format!("{}-conc", spec.id), idx);
        let sc = crate::conc_check::gen_outage_scenario(spec.id, seed);
        println!("{}", serde_json::to_string(&sc).unwrap());
        let o = crate::conc_check::explore_outage(&sc, false);
        println!("runs={} steps={} probes={:?} fired={:?}", o.runs, o.steps, o.probes, o.fired);
        for f in o.found.iter() {
            println!("FOUND {} {} :: {}", f.property, f.signature, f.detail);
        }
        return 0;
    }
    if spec.engine == Engine::Conc {
        let seed = derive(root_seed(), &format!("{}-conc", spec.id), idx);
        let sc = crate::conc_check::gen_scenario(spec.id, seed);
        println!("{}", serde_json::to_string(&sc).unwrap());
        let o = crate::conc_check::explore_scenario(&sc, 6);
        println!("runs={} steps={} preemptions={}", o.runs, o.steps, o.preemptions);
        for t in o.schedules.iter() {
            println!("trace {:?}", t);
        }
        for f in o.found.iter() {
            println!("FOUND {} {} :: {}", f.property, f.signature, f.detail);
        }
        return 0;
    }
    if spec.id == "C19" && idx % 4 == 3 {
        let h = crate::txidx::gen_idx_history(derive(root_seed(), "C19-txidx", idx));
        println!("{}", serde_json::to_string(&h).unwrap());
        let res = crate::txidx::run_idx(&h);
        println!("digest={:x} ops={} probes={:?} found={:?}", res.digest, res.ops, res.probes, res.found);
        return 0;
    }
    let h = history_for(spec, root_seed(), idx);
    let t0 = Instant::now();
    let res = run_in_thread(&h);
    println!("ops={} time={:?} digest={:x}", h.ops.len(), t0.elapsed(), res.stats.log_digest);
    println!("probes: {:?}", res.stats.probes);
    println!("faults: {:?}", res.stats.faults_fired);
    for f in res.found.iter() {
        println!("FOUND {} {} at op #{} ({}): {}", f.v.property, f.v.clause, f.op_index, f.op_kind, f.v.detail);
    }
    let _ = Duration::from_secs(0);
    0
}
