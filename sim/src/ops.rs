//! Operations, histories and fault scripts: the replayable description of one simulated run.

use serde::{Deserialize, Serialize};

#[derive(Serialize, Deserialize, Clone, Debug, PartialEq, Eq, Hash)]
pub enum TxRef {
    Dispute(u32),
    DisputeAlt(u32),
    Penalty { d: u32, v: u32, len: usize },
    Filler(u32),
}

#[derive(Serialize, Deserialize, Clone, Debug, PartialEq, Eq, Hash)]
pub enum Blob {
    /// encrypt(penalty(d, v, len), txid(dispute d))
    Valid { v: u32, len: usize },
    /// Random bytes: does not decrypt.
    Garbage { len: usize, salt: u32 },
    /// Zero-length blob.
    Empty,
    /// Decrypts (valid AEAD under the dispute id) to bytes that are not a transaction.
    BadTx { len: usize },
    /// A valid penalty encrypted under the id of another dispute: does not decrypt under this locator's dispute.
    OtherKey { v: u32, len: usize, d2: u32 },
}

/// How the request signature is produced (C06).
#[derive(Serialize, Deserialize, Clone, Debug, PartialEq, Eq, Hash)]
pub enum Sig {
    /// The right user signs the right message.
    Good,
    /// Right user, but the message of another request kind / another locator.
    OtherMessage(u32),
    /// Another (registered or not) user `u2` signs the right message.
    OtherUser(u32),
    /// Signature truncated to n characters.
    Truncated(u32),
    /// One character replaced (position mod len).
    Flip(u32),
    /// Characters outside the zbase32 alphabet.
    NonZbase32,
    Empty,
    /// The right user signs the right message; the signature string is sent in upper case (zbase32 decoding does not
    /// care, so it authenticates; whatever the tower signs or stores must carry the string as it was sent).
    GoodUpper,
}

#[derive(Serialize, Deserialize, Clone, Debug, PartialEq, Eq, Hash)]
pub enum Op {
    Register { u: u32 },
    /// Registration request with a malformed user id (wrong length / not a curve point).
    RegisterBadId { kind: u32 },
    Add { u: u32, d: u32, blob: Blob, tsd: u32, sig: Sig },
    Get { u: u32, d: u32, sig: Sig },
    SubInfo { u: u32, sig: Sig },
    /// The node mines one block with these transactions (those that are not valid at that point are skipped).
    Mine { txs: Vec<TxRef> },
    /// The tower polls the node once.
    Poll,
    /// The node reorganises: `depth` blocks are replaced by `branch` (made at least depth+1 long).
    Reorg { depth: u32, branch: Vec<Vec<TxRef>> },
    Evict(TxRef),
    PolicyInvalid(TxRef),
    /// The next poll is answered with an equal-work sibling of the tip.
    WorseTip,
    /// The node switches to an equal-work sibling of its tip holding `txs` (`preciousblock`): the tower sees a "worse"
    /// tip of equal work until something is mined on top of it.
    Precious { txs: Vec<TxRef> },
    /// Graceful stop and start on the same data directory.
    Restart,
    NodeDown,
    NodeUp,
    /// The node comes back, and goes away again when the `rpcs`-th RPC after that is issued (C12: an outage that hits
    /// the retried call).
    NodeUpThenDownAfter { rpcs: u32 },
    /// The node comes back, and goes away again at the `calls`-th block-source call after that (C12: a second outage that
    /// begins at a poll, while nobody else is talking to the node).
    NodeUpThenDownAtBs { calls: u32 },
    /// The node comes back having lost its last `k` blocks (their transactions are back in its mempool); it connects
    /// them again only after the scheduled phase (C12: a reachable node that is behind the tower's tip).
    NodeUpBehind { k: u32 },
    /// Arms a failure of the n-th block download of the next poll.
    FetchFault { nth: u32, persistent: bool },
    /// Environment thread only: yields until the node is down (or `max` scheduling points went by).
    WaitNodeDown { max: u32 },
    /// Scheduled phases only: lets `n` scheduling points go by (spreads polls / environment actions over an outage).
    Yield { n: u32 },
    /// Chain thread (C12): yields until the node is reachable again (or `max` scheduling points went by).
    WaitNodeUp { max: u32 },
    /// C15: the request of `base` (Register / RegisterBadId / Add / Get / SubInfo / Ping) made through the real HTTP front
    /// under a mutation.
    Http { base: Box<Op>, m: crate::http::HttpMut },
    /// GET /ping through the HTTP front.
    Ping,
    /// Forces the node's answer to `sendrawtransaction(tx)`: 0 = unknown error code, 1 = undecodable reply.
    ForceVerdict { tx: TxRef, kind: u32 },
}

#[derive(Serialize, Deserialize, Clone, Debug, PartialEq, Eq)]
pub struct TowerCfg {
    pub slots: u32,
    pub duration: u32,
    pub grace: u32,
    pub txindex: bool,
    pub start_height: u32,
}

#[derive(Serialize, Deserialize, Clone, Debug, PartialEq, Eq, Default)]
pub struct FaultScript {
    /// Crash at the n-th crash point (1-based, counted over the whole run); the tower is then restarted.
    pub crash_at: Vec<u64>,
    /// Node goes down at the n-th RPC and comes back after `outage_polls` further polls.
    pub down_at_rpc: Option<u64>,
    pub down_at_bs: Option<u64>,
    pub outage_polls: u32,
}

#[derive(Serialize, Deserialize, Clone, Debug, PartialEq, Eq)]
pub struct History {
    pub property: String,
    pub seed: u64,
    pub cfg: TowerCfg,
    pub ops: Vec<Op>,
    pub faults: FaultScript,
}

impl Op {
    pub fn kind(&self) -> &'static str {
        match self {
            Op::Register { .. } => "register",
            Op::RegisterBadId { .. } => "register_bad_id",
            Op::Add { .. } => "add",
            Op::Get { .. } => "get",
            Op::SubInfo { .. } => "subinfo",
            Op::Mine { .. } => "mine",
            Op::Poll => "poll",
            Op::Reorg { .. } => "reorg",
            Op::Evict(_) => "evict",
            Op::PolicyInvalid(_) => "policy_invalid",
            Op::WorseTip => "worse_tip",
            Op::Precious { .. } => "precious",
            Op::Restart => "restart",
            Op::NodeDown => "node_down",
            Op::NodeUp => "node_up",
            Op::NodeUpThenDownAfter { .. } => "node_up_then_down",
            Op::NodeUpThenDownAtBs { .. } => "node_up_then_down_at_poll",
            Op::NodeUpBehind { .. } => "node_up_behind",
            Op::FetchFault { .. } => "fetch_fault",
            Op::ForceVerdict { .. } => "force_verdict",
            Op::WaitNodeDown { .. } => "wait_node_down",
            Op::WaitNodeUp { .. } => "wait_node_up",
            Op::Yield { .. } => "yield",
            Op::Http { base, .. } => match base.kind() {
                "register" => "http_register",
                "register_bad_id" => "http_register_bad_id",
                "add" => "http_add",
                "get" => "http_get",
                "subinfo" => "http_subinfo",
                "ping" => "http_ping",
                _ => "http",
            },
            Op::Ping => "ping",
        }
    }
}
