//! The event log: one entry per event, stamped with a global sequence number. Logging never draws from the PRNG
//! and never reads a clock.

use std::sync::{Arc, Mutex};

use bitcoin::{BlockHash, Txid};

use crate::node::Verdict;
use crate::obs::DbDump;

/// Snapshot of the tower's two bounded look-ups (6-block locator cache, 100-block tx index).
#[derive(Clone, Debug, Default)]
pub struct IndexSnap {
    pub cache_entries: Vec<(Vec<u8>, Txid)>,
    pub cache_blocks: Vec<(BlockHash, usize, Option<usize>)>,
    pub index_entries: Vec<(Txid, BlockHash)>,
    pub index_blocks: Vec<(BlockHash, usize, Option<usize>)>,
}

#[derive(Clone, Debug)]
pub enum Event {
    OpStart(usize),
    OpEnd(usize),
    /// An RPC the tower issued to the node.
    Rpc {
        method: &'static str,
        txid: Option<Txid>,
        verdict: Verdict,
    },
    /// The listener chain starts handling a connected block (before the gatekeeper).
    BlockStart { hash: BlockHash, height: u32, txids: Vec<Txid> },
    /// The listener chain finished handling a connected block (after the responder); db state at that instant.
    BlockEnd { hash: BlockHash, height: u32, db: Option<Box<DbDump>>, idx: Option<Box<IndexSnap>> },
    DisconnectStart { hash: BlockHash, height: u32 },
    DisconnectEnd { hash: BlockHash, height: u32, db: Option<Box<DbDump>>, idx: Option<Box<IndexSnap>> },
    Crash { site: &'static str, n: u64 },
    Restart,
    Note(String),
}

#[derive(Clone, Default)]
pub struct EventLog(pub Arc<Mutex<Vec<Event>>>);

impl EventLog {
    pub fn new() -> Self {
        Self::default()
    }
    pub fn push(&self, e: Event) {
        self.0.lock().unwrap_or_else(|e| e.into_inner()).push(e);
    }
    pub fn len(&self) -> usize {
        self.0.lock().unwrap_or_else(|e| e.into_inner()).len()
    }
    pub fn since(&self, from: usize) -> Vec<Event> {
        self.0.lock().unwrap_or_else(|e| e.into_inner())[from..].to_vec()
    }
}
