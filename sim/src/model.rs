//! Reference model of the tower, driven by the property *statements* (not by the code), plus the oracles that
//! compare it with what the real tower did (API replies, sqlite rows, RPC log).
//!
//! The model is predictive for users / slots / stored appointments, and *reads* node verdicts from the RPC log to
//! decide which of the allowed outcomes a triggered appointment must have. Where the statements are silent (a *new*
//! breach whose penalty the node reports as already in its chain: verdict -27) the record becomes `unspecified` and
//! the observed state is adopted. For an appointment that is already responded, -27 on a re-submission is neither a
//! rejection nor 100 confirmations: the response must stay.

use std::collections::{BTreeMap, BTreeSet};

use bitcoin::consensus::serialize;
use bitcoin::hashes::Hash;
use bitcoin::{BlockHash, Transaction, Txid};

use teos_common::appointment::Locator;

use crate::events::Event;
use crate::node::{NodeState, Universe, Verdict, RPC_VERIFY_ALREADY_IN_CHAIN};
use crate::obs::DbDump;
use crate::ops::TowerCfg;

#[derive(Clone, Debug)]
pub struct Violation {
    pub property: &'static str,
    pub clause: &'static str,
    pub detail: String,
}

pub fn viol(property: &'static str, clause: &'static str, detail: String) -> Violation {
    Violation {
        property,
        clause,
        detail,
    }
}

/// Slots an appointment occupies, per C07's statement: ceil(len / 2048), never less than one.
pub fn slots_for(len: usize) -> u32 {
    (((len + 2047) / 2048) as u32).max(1)
}

#[derive(Clone, Debug, PartialEq, Eq)]
pub struct MUser {
    pub pk: Vec<u8>,
    pub available: u32,
    pub start: u32,
    pub expiry: u32,
    pub granted: u64,
    pub forfeited: u64,
    /// Slot bookkeeping of this user touched an unspecified corner; the observed value is adopted.
    pub tainted: bool,
}

#[derive(Clone, Debug, PartialEq, Eq)]
pub enum RecState {
    Watched,
    Responded,
}

#[derive(Clone, Debug)]
pub struct Rec {
    pub u: u32,
    pub d: u32,
    pub blob: Vec<u8>,
    pub tsd: u32,
    pub sig: String,
    pub start_block: u32,
    pub state: RecState,
    /// The penalty the blob decrypts to under the dispute id (None: does not decrypt).
    pub penalty: Option<Transaction>,
    /// Statement is silent about this record's fate: accept and adopt what is observed.
    pub unspecified: bool,
    /// Accept presence or absence at the next comparison only (absence = dropped without refund).
    pub adopt_once: bool,
    /// Ground truth: height at which the penalty sits in the chain shown to the tower.
    pub conf: Option<u32>,
    /// The block that confirmed the penalty was disconnected and no block has been connected since.
    pub needs_reannounce: bool,
    /// Connected blocks since the last submission of the penalty (while unconfirmed).
    pub blocks_since_send: u32,
    /// At least one block was disconnected since the response was made.
    pub disconnect_seen: bool,
}

#[derive(Clone, Debug, PartialEq, Eq)]
pub enum Outcome {
    Responded,
    Dropped,
    Unspecified,
}

/// What a crash in the middle of a request may legitimately leave behind (consumed at the first comparison after the
/// restart).
#[derive(Clone, Debug)]
pub enum CrashAllow {
    Register { u: u32, before: Option<MUser>, after: Option<MUser> },
    Add {
        u: u32,
        d: u32,
        lo: u32,
        hi: u32,
        /// available slots once the new version is held (the charge / refund of the request applied)
        charged: u32,
        new_blob: Vec<u8>,
        new_tsd: u32,
        new_sig: String,
        new_penalty: Option<Transaction>,
    },
}

pub struct Model {
    pub crash_allow: Option<CrashAllow>,
    pub cfg: TowerCfg,
    pub uni: Universe,
    pub h: u32,
    /// Chain shown to the tower: (height of first element, hashes).
    pub base: u32,
    pub shown: Vec<BlockHash>,
    pub users: BTreeMap<u32, MUser>,
    pub recs: BTreeMap<(u32, u32), Rec>,
    /// Number of blocks currently held by the 6-block cache / 100-block index.
    pub cache_len: usize,
    pub index_len: usize,
    pub index_prev_len: usize,
    pub reorg_pending: bool,
    pub n_users: u32,
    pub n_disputes: u32,
    /// dispute txid -> d, penalty lookups
    pub dispute_ids: BTreeMap<Txid, u32>,
    pub probes: BTreeMap<&'static str, u64>,
    pub tower_id: Option<teos_common::TowerId>,
    pub first_boot: bool,
    /// Every block the tower has ever been shown (boot chain + connected blocks).
    pub ever_shown: BTreeSet<BlockHash>,
    /// After a (re)start the tower has lost its in-memory list of reorged trackers; if it had already re-announced them
    /// before going down, it need not do it again at the first block it connects.
    pub reannounce_optional: bool,
    /// Verdicts the node gave since the tower last finished a block: the tower may rely on them instead of asking again.
    pub recent_verdicts: BTreeMap<Txid, Verdict>,
    pub pk_cache: Vec<Vec<u8>>,
    pub uuid_cache: BTreeMap<(u32, u32), Vec<u8>>,
    pub loc_cache: Vec<Locator>,
}

impl Model {
    pub fn new(cfg: TowerCfg, uni: Universe, n_users: u32, n_disputes: u32) -> Self {
        let mut dispute_ids = BTreeMap::new();
        for d in 0..n_disputes {
            dispute_ids.insert(uni.dispute(d).compute_txid(), d);
        }
        let secp = bitcoin::secp256k1::Secp256k1::new();
        let pk_cache: Vec<Vec<u8>> = (0..n_users + 1)
            .map(|u| {
                bitcoin::secp256k1::PublicKey::from_secret_key(&secp, &uni.user_sk(u))
                    .serialize()
                    .to_vec()
            })
            .collect();
        let loc_cache: Vec<Locator> = (0..n_disputes).map(|d| Locator::new(uni.dispute(d).compute_txid())).collect();
        let mut uuid_cache = BTreeMap::new();
        for u in 0..n_users + 1 {
            for d in 0..n_disputes {
                let mut data = loc_cache[d as usize].to_vec();
                data.extend(pk_cache[u as usize].clone());
                uuid_cache.insert((u, d), bitcoin::hashes::ripemd160::Hash::hash(&data).to_byte_array().to_vec());
            }
        }
        Model {
            crash_allow: None,
            recent_verdicts: BTreeMap::new(),
            ever_shown: BTreeSet::new(),
            reannounce_optional: false,
            pk_cache,
            uuid_cache,
            loc_cache,
            cfg,
            uni,
            h: 0,
            base: 0,
            shown: vec![],
            users: BTreeMap::new(),
            recs: BTreeMap::new(),
            cache_len: 0,
            index_len: 0,
            index_prev_len: 0,
            reorg_pending: false,
            n_users,
            n_disputes,
            dispute_ids,
            probes: BTreeMap::new(),
            tower_id: None,
            first_boot: true,
        }
    }

    pub fn probe(&mut self, name: &'static str) {
        *self.probes.entry(name).or_insert(0) += 1;
    }

    pub fn locator(&self, d: u32) -> Locator {
        if let Some(l) = self.loc_cache.get(d as usize) {
            return *l;
        }
        Locator::new(self.uni.dispute(d).compute_txid())
    }

    pub fn user_pk(&self, u: u32) -> Vec<u8> {
        if let Some(pk) = self.pk_cache.get(u as usize) {
            return pk.clone();
        }
        let sk = self.uni.user_sk(u);
        bitcoin::secp256k1::PublicKey::from_secret_key(&bitcoin::secp256k1::Secp256k1::new(), &sk)
            .serialize()
            .to_vec()
    }

    pub fn uuid(&self, u: u32, d: u32) -> Vec<u8> {
        if let Some(x) = self.uuid_cache.get(&(u, d)) {
            return x.clone();
        }
        let mut data = self.locator(d).to_vec();
        data.extend(self.user_pk(u));
        bitcoin::hashes::ripemd160::Hash::hash(&data).to_byte_array().to_vec()
    }

    /// (Re)initialises the chain view at boot: the tower starts at `tip` with full caches built from the node.
    pub fn on_boot(&mut self, node: &NodeState, tip: BlockHash) {
        let height = node.blocks[&tip].1;
        // Walk back to build the shown chain (the tower's caches only cover the last 100, keep 120 for margin).
        let mut hashes = vec![tip];
        let mut cur = tip;
        while hashes.len() < 130 {
            let prev = node.blocks[&cur].0.header.prev_blockhash;
            if !node.blocks.contains_key(&prev) {
                break;
            }
            hashes.push(prev);
            cur = prev;
        }
        hashes.reverse();
        self.base = height + 1 - hashes.len() as u32;
        self.ever_shown.extend(hashes.iter().cloned());
        self.reannounce_optional = !self.first_boot;
        self.shown = hashes;
        self.h = height;
        self.cache_len = 6;
        self.index_len = 100;
        self.reorg_pending = false;
        self.recent_verdicts.clear();
        // In-memory reorg bookkeeping of the tower is lost on restart; ground truth is recomputed.
        let keys: Vec<_> = self.recs.keys().cloned().collect();
        for k in keys {
            let conf = {
                let r = &self.recs[&k];
                r.penalty.as_ref().and_then(|p| self.height_in_shown(node, &p.compute_txid()))
            };
            let r = self.recs.get_mut(&k).unwrap();
            r.conf = conf;
            r.needs_reannounce = false;
        }
    }

    pub fn tip(&self) -> BlockHash {
        *self.shown.last().unwrap()
    }

    fn hash_at(&self, height: u32) -> Option<BlockHash> {
        if height < self.base {
            return None;
        }
        self.shown.get((height - self.base) as usize).cloned()
    }

    /// Height of `txid` in the chain shown to the tower (within the window the model keeps).
    pub fn height_in_shown(&self, node: &NodeState, txid: &Txid) -> Option<u32> {
        for (i, bh) in self.shown.iter().enumerate() {
            if node.blocks[bh].0.txdata.iter().any(|t| t.compute_txid() == *txid) {
                return Some(self.base + i as u32);
            }
        }
        None
    }

    /// Transactions of the last `n` shown blocks.
    fn window_txids(&self, node: &NodeState, n: usize) -> BTreeMap<Txid, (BlockHash, u32)> {
        let mut m = BTreeMap::new();
        let len = self.shown.len();
        for i in len.saturating_sub(n)..len {
            let bh = self.shown[i];
            for t in node.blocks[&bh].0.txdata.iter() {
                m.insert(t.compute_txid(), (bh, self.base + i as u32));
            }
        }
        m
    }

    pub fn in_cache(&self, node: &NodeState, txid: &Txid) -> bool {
        self.window_txids(node, self.cache_len).contains_key(txid)
    }

    pub fn in_index(&self, node: &NodeState, txid: &Txid) -> Option<u32> {
        self.window_txids(node, self.index_len).get(txid).map(|x| x.1)
    }

    /// The responder's index as it is while the *watcher* handles the newest block: that block is not in it yet.
    pub fn in_index_before_tip(&self, node: &NodeState, txid: &Txid) -> Option<u32> {
        let tip = self.tip();
        self.window_txids(node, self.index_prev_len + 1)
            .get(txid)
            .filter(|x| x.0 != tip)
            .map(|x| x.1)
    }

    pub fn usable(&self, u: u32) -> bool {
        self.users.get(&u).map(|x| self.h < x.expiry).unwrap_or(false)
    }

    // -----------------------------------------------------------------------------------------
    // Breach outcome, read from the RPC log of the window in which the tower had to answer it.

    /// Decides what must have happened to a triggered record whose blob decrypts to `penalty`.
    /// `rpcs`: RPC events of the window (one request, or one block).
    pub fn breach_outcome(
        &self,
        node: &NodeState,
        penalty: &Transaction,
        rpcs: &[(&'static str, Option<Txid>, Verdict)],
        in_block: bool,
    ) -> Result<Outcome, String> {
        let ptxid = penalty.compute_txid();
        let indexed = if in_block {
            self.in_index_before_tip(node, &ptxid)
        } else {
            self.in_index(node, &ptxid)
        };
        if indexed.is_some() {
            return Ok(Outcome::Responded);
        }
        for (m, t, v) in rpcs {
            if *t != Some(ptxid) {
                continue;
            }
            match (*m, v) {
                ("getrawtransaction", Verdict::Ok) => return Ok(Outcome::Responded),
                ("getrawtransaction", _) => continue,
                ("sendrawtransaction", Verdict::Ok) => return Ok(Outcome::Responded),
                ("sendrawtransaction", Verdict::Err(RPC_VERIFY_ALREADY_IN_CHAIN)) => return Ok(Outcome::Unspecified),
                ("sendrawtransaction", Verdict::Transport) => continue,
                ("sendrawtransaction", _) => return Ok(Outcome::Dropped),
                _ => {}
            }
        }
        if let Some(v) = self.recent_verdicts.get(&ptxid) {
            return Ok(match v {
                Verdict::Ok => Outcome::Responded,
                Verdict::Err(RPC_VERIFY_ALREADY_IN_CHAIN) => Outcome::Unspecified,
                _ => Outcome::Dropped,
            });
        }
        Err(format!(
            "penalty {ptxid} was neither found in the recent-block index nor in the node's mempool, and was never submitted"
        ))
    }

    // -----------------------------------------------------------------------------------------
    // Comparison of the durable state with the model

    pub fn compare_db(&mut self, node: &NodeState, db: &DbDump, at: &str, check_confirmed: bool) -> Vec<Violation> {
        let mut out = Vec::new();
        if let Some(allow) = self.crash_allow.take() {
            out.extend(self.apply_crash_allowance(node, db, allow, at));
        }
        if db.fk_violations > 0 {
            out.push(viol("C03", "dangling_rows", format!("{at}: {} foreign-key violations", db.fk_violations)));
        }
        // users
        let mut seen_users = BTreeSet::new();
        for row in db.users.iter() {
            let u = self.users.iter().find(|(_, m)| m.pk == row.user_id).map(|(u, _)| *u);
            match u {
                None => out.push(viol(
                    "C09",
                    "user_row_unexpected",
                    format!("{at}: users table holds {} which the model does not (purged or never registered)", hex::encode(&row.user_id)),
                )),
                Some(u) => {
                    seen_users.insert(u);
                    let m = self.users.get_mut(&u).unwrap();
                    if m.tainted {
                        m.available = row.available;
                    }
                    if row.available != m.available {
                        out.push(viol(
                            "C07",
                            "available_slots_persisted",
                            format!("{at}: user {u}: persisted available_slots={} model={}", row.available, m.available),
                        ));
                        // Adopt to avoid cascading reports of the same discrepancy.
                        m.available = row.available;
                    }
                    if row.start != m.start || row.expiry != m.expiry {
                        out.push(viol(
                            "C09",
                            "subscription_persisted",
                            format!(
                                "{at}: user {u}: persisted (start,expiry)=({},{}) model=({},{})",
                                row.start, row.expiry, m.start, m.expiry
                            ),
                        ));
                        m.start = row.start;
                        m.expiry = row.expiry;
                    }
                }
            }
        }
        let missing: Vec<u32> = self.users.keys().filter(|u| !seen_users.contains(u)).cloned().collect();
        for u in missing {
            out.push(viol(
                "C09",
                "user_row_missing",
                format!("{at}: user {u} should still be registered (expiry {}, grace {}, height {})", self.users[&u].expiry, self.cfg.grace, self.h),
            ));
            self.users.remove(&u);
            self.recs.retain(|k, _| k.0 != u);
        }

        // appointments + trackers
        let mut seen = BTreeSet::new();
        let tracker_of = |uuid: &Vec<u8>| db.trackers.iter().find(|t| &t.uuid == uuid);
        let keys: Vec<(u32, u32)> = self.recs.keys().cloned().collect();
        for k in keys {
            let uuid = self.uuid(k.0, k.1);
            let row = db.appointments.iter().find(|a| a.uuid == uuid);
            let trk = tracker_of(&uuid);
            let rec = self.recs.get(&k).unwrap().clone();
            let dtxid_of_k = self.uni.dispute(k.1).compute_txid();
            if rec.adopt_once {
                self.recs.get_mut(&k).unwrap().adopt_once = false;
                if row.is_none() {
                    if let Some(r) = self.recs.remove(&k) {
                        if let Some(m) = self.users.get_mut(&k.0) {
                            m.forfeited += slots_for(r.blob.len()) as u64;
                        }
                    }
                    continue;
                }
            }
            if rec.unspecified {
                // Adopt what is there.
                match (row, trk) {
                    (None, _) => {
                        self.recs.remove(&k);
                        if let Some(m) = self.users.get_mut(&k.0) {
                            m.tainted = true;
                        }
                    }
                    (Some(a), t) => {
                        seen.insert(uuid.clone());
                        let r = self.recs.get_mut(&k).unwrap();
                        if r.blob != a.blob {
                            r.blob = a.blob.clone();
                            r.penalty = teos_common::cryptography::decrypt(&a.blob, &dtxid_of_k).ok();
                        }
                        r.tsd = a.tsd;
                        r.sig = a.sig.clone();
                        r.start_block = a.start_block;
                        r.state = if t.is_some() { RecState::Responded } else { RecState::Watched };
                        if let Some(m) = self.users.get_mut(&k.0) {
                            m.tainted = true;
                        }
                    }
                }
                continue;
            }
            match row {
                None => {
                    out.push(viol(
                        if rec.state == RecState::Responded { "C04" } else { "C01" },
                        "record_missing",
                        format!("{at}: appointment (user {}, dispute {}) in state {:?} is gone from the database", k.0, k.1, rec.state),
                    ));
                    self.recs.remove(&k);
                }
                Some(a) => {
                    seen.insert(uuid.clone());
                    if a.blob != rec.blob || a.tsd != rec.tsd || a.sig != rec.sig || a.start_block != rec.start_block
                        || a.locator != self.locator(k.1).to_vec() || a.user_id != self.user_pk(k.0)
                    {
                        out.push(viol(
                            "C08",
                            "stored_appointment_differs",
                            format!(
                                "{at}: stored appointment (user {}, dispute {}) differs from the last accepted version (blob {}B vs {}B, tsd {} vs {}, start_block {} vs {})",
                                k.0, k.1, a.blob.len(), rec.blob.len(), a.tsd, rec.tsd, a.start_block, rec.start_block
                            ),
                        ));
                        let r = self.recs.get_mut(&k).unwrap();
                        r.blob = a.blob.clone();
                        r.tsd = a.tsd;
                        r.sig = a.sig.clone();
                        r.start_block = a.start_block;
                    }
                    match (&rec.state, trk) {
                        (RecState::Watched, None) => {}
                        (RecState::Watched, Some(_)) => {
                            out.push(viol(
                                "C02",
                                "tracker_unexpected",
                                format!("{at}: (user {}, dispute {}) has a tracker but no breach justified a response", k.0, k.1),
                            ));
                            self.recs.get_mut(&k).unwrap().state = RecState::Responded;
                        }
                        (RecState::Responded, None) => {
                            out.push(viol(
                                "C01",
                                "tracker_missing",
                                format!("{at}: (user {}, dispute {}) must be reported dispute_responded but has no tracker", k.0, k.1),
                            ));
                            self.recs.get_mut(&k).unwrap().state = RecState::Watched;
                        }
                        (RecState::Responded, Some(t)) => {
                            let p = rec.penalty.as_ref().unwrap();
                            let d = self.uni.dispute(k.1);
                            if t.penalty != serialize(p) || t.dispute != serialize(&d) {
                                out.push(viol(
                                    "C01",
                                    "tracker_content",
                                    format!("{at}: tracker of (user {}, dispute {}) does not hold exactly that dispute and penalty", k.0, k.1),
                                ));
                            }
                            // While a reorg is half-way (blocks disconnected, none connected yet) the chain update has not been
                            // processed: the statement only binds once it has.
                            // Derived from "forgotten ... when, and only when, buried 100 deep": once the block holding the
                            // penalty has been delivered, the tracker must be recorded as confirmed there (that row is what the
                            // completion is computed from).
                            if check_confirmed && !self.reorg_pending && !t.confirmed {
                                if let Some(hc) = rec.conf {
                                    if self.height_in_shown(node, &p.compute_txid()) == Some(hc) {
                                        out.push(viol(
                                            "C04",
                                            "confirmation_not_recorded",
                                            format!(
                                                "{at}: penalty of (user {}, dispute {}) sits in block {hc} of the chain the tower was shown, but its tracker is still recorded as unconfirmed (since {})",
                                                k.0, k.1, t.height
                                            ),
                                        ));
                                    }
                                }
                            }
                            if check_confirmed && t.confirmed && !self.reorg_pending {
                                let truth = self.height_in_shown(node, &p.compute_txid());
                                if truth != Some(t.height) {
                                    out.push(viol(
                                        "C04",
                                        "confirmed_height",
                                        format!(
                                            "{at}: tracker of (user {}, dispute {}) recorded as confirmed at {} but the penalty is at {:?} on the chain the tower was shown",
                                            k.0, k.1, t.height, truth
                                        ),
                                    ));
                                }
                            }
                        }
                    }
                }
            }
        }
        for a in db.appointments.iter() {
            if !seen.contains(&a.uuid) {
                out.push(viol(
                    "C01",
                    "record_unexpected",
                    format!(
                        "{at}: database holds appointment uuid {} (locator {}) that should have been dropped / never stored",
                        hex::encode(&a.uuid),
                        hex::encode(&a.locator)
                    ),
                ));
            }
        }
        out
    }

    fn apply_crash_allowance(&mut self, node: &NodeState, db: &DbDump, allow: CrashAllow, at: &str) -> Vec<Violation> {
        let mut out = vec![];
        match allow {
            CrashAllow::Register { u, before, after } => {
                let pk = self.user_pk(u);
                let row = db.users.iter().find(|r| r.user_id == pk);
                let matches = |m: &Option<MUser>| match (m, row) {
                    (None, None) => true,
                    (Some(m), Some(r)) => m.available == r.available && m.start == r.start && m.expiry == r.expiry,
                    _ => false,
                };
                if matches(&after) && !matches(&before) {
                    if let Some(a) = after {
                        self.users.insert(u, a);
                    }
                    self.probe("crash_register_applied");
                } else if matches(&before) {
                    self.probe("crash_register_not_applied");
                } else {
                    out.push(viol(
                        "C03",
                        "interrupted_registration_mixed",
                        format!("{at}: after a crash inside register(user {u}) the user row is neither the old nor the new subscription: {row:?}"),
                    ));
                    if let (Some(r), Some(mut a)) = (row, after.or(before)) {
                        a.available = r.available;
                        a.start = r.start;
                        a.expiry = r.expiry;
                        a.tainted = true;
                        self.users.insert(u, a);
                    }
                }
            }
            CrashAllow::Add { u, d, lo, hi, charged, new_blob, new_tsd, new_sig, new_penalty } => {
                let pk = self.user_pk(u);
                let uuid = self.uuid(u, d);
                let before = self.users.get(&u).map(|m| m.available).unwrap_or(0);
                let row = db.appointments.iter().find(|a| a.uuid == uuid);
                let has_tracker = db.trackers.iter().any(|t| t.uuid == uuid);
                let applied = matches!(row, Some(a) if a.blob == new_blob && a.sig == new_sig && a.tsd == new_tsd);
                if let Some(r) = db.users.iter().find(|r| r.user_id == pk) {
                    if !applied && r.available > before {
                        out.push(viol(
                            "C03",
                            "crash_grants_slots_on_interrupted_shrinking_update",
                            format!(
                                "{at}: crash inside add(user {u}, dispute {d}) (replacement by a smaller blob): the stored appointment is still the old one but available slots went from {before} to {} -- the crash granted slots",
                                r.available
                            ),
                        ));
                    } else if applied && r.available > charged {
                        out.push(viol(
                            "C03",
                            "crash_grants_slots_appointment_stored_uncharged",
                            format!(
                                "{at}: crash inside add(user {u}, dispute {d}): the new appointment is stored but the user still has {} slots (must be {charged} once it is held) -- the crash granted slots",
                                r.available
                            ),
                        ));
                    } else if r.available < lo || r.available > hi {
                        out.push(viol(
                            "C03",
                            "crash_slot_bounds",
                            format!(
                                "{at}: crash inside add(user {u}, dispute {d}): available slots are {} but must stay within [{lo},{hi}] (at most the in-flight request is lost, nothing is granted)",
                                r.available
                            ),
                        ));
                    }
                    if let Some(m) = self.users.get_mut(&u) {
                        m.available = r.available;
                    }
                }
                match row {
                    Some(a) if applied => {
                        // the new version made it to disk
                        self.probe("crash_add_applied");
                        let conf = new_penalty.as_ref().and_then(|p| self.height_in_shown(node, &p.compute_txid()));
                        self.recs.insert(
                            (u, d),
                            Rec {
                                u,
                                d,
                                blob: new_blob,
                                tsd: new_tsd,
                                sig: new_sig,
                                start_block: a.start_block,
                                state: if has_tracker { RecState::Responded } else { RecState::Watched },
                                penalty: new_penalty,
                                unspecified: false,
                                adopt_once: false,
                                conf: if has_tracker { conf } else { None },
                                needs_reannounce: false,
                                blocks_since_send: self.h,
                                disconnect_seen: false,
                            },
                        );
                    }
                    _ => {
                        self.probe("crash_add_not_applied");
                    }
                }
                // Whatever the in-flight request lost is gone for good: fold it into the forfeited account.
                if let Some(m) = self.users.get_mut(&u) {
                    let held: u64 = db
                        .appointments
                        .iter()
                        .filter(|a| a.user_id == pk)
                        .map(|a| slots_for(a.blob.len()) as u64)
                        .sum();
                    let rhs = m.available as u64 + held;
                    if m.granted >= rhs {
                        m.forfeited = m.granted - rhs;
                    } else {
                        // a gift (reported above): keep the books balanced from here on
                        m.granted = rhs;
                        m.forfeited = 0;
                    }
                }
            }
        }
        out
    }

    /// C07 conservation law, evaluated on observed values only.
    pub fn check_conservation(&mut self, db: &DbDump, at: &str) -> Vec<Violation> {
        let mut out = vec![];
        for (u, m) in self.users.iter_mut() {
            if m.tainted {
                continue;
            }
            let Some(row) = db.users.iter().find(|r| r.user_id == m.pk) else { continue };
            let held: u64 = db
                .appointments
                .iter()
                .filter(|a| a.user_id == m.pk)
                .map(|a| slots_for(a.blob.len()) as u64)
                .sum();
            if m.granted != row.available as u64 + held + m.forfeited {
                out.push(viol(
                    "C07",
                    "conservation",
                    format!(
                        "{at}: user {u}: granted {} != available {} + held {} + forfeited {}",
                        m.granted, row.available, held, m.forfeited
                    ),
                ));
                // Report once per user: from here on the user's bookkeeping is adopted.
                m.tainted = true;
            }
        }
        out
    }

    // -----------------------------------------------------------------------------------------
    // Chain events

    pub fn on_disconnect(&mut self, node: &NodeState, hash: BlockHash, height: u32, db: Option<&DbDump>) -> Vec<Violation> {
        let mut out = vec![];
        if self.tip() != hash || self.h != height {
            out.push(viol(
                "C19",
                "disconnect_order",
                format!("tower was told to disconnect {hash}@{height} but its tip is {}@{}", self.tip(), self.h),
            ));
        }
        self.shown.pop();
        self.h = height - 1;
        if self.cache_len > 0 {
            self.cache_len -= 1;
        }
        if self.index_len > 0 {
            self.index_len -= 1;
        }
        self.reorg_pending = true;
        for r in self.recs.values_mut() {
            if r.state == RecState::Responded {
                r.disconnect_seen = true;
                if r.conf == Some(height) {
                    r.conf = None;
                    r.needs_reannounce = true;
                }
            }
        }
        self.probe("block_disconnected");
        if let Some(db) = db {
            out.extend(self.compare_db(node, db, &format!("after disconnecting height {height}"), false));
        }
        out
    }

    /// Handles one connected block: `rpcs` are the RPCs the tower issued while processing it.
    #[allow(clippy::too_many_arguments)]
    pub fn on_connect(
        &mut self,
        node: &NodeState,
        hash: BlockHash,
        height: u32,
        rpcs: &[(&'static str, Option<Txid>, Verdict)],
        db: Option<&DbDump>,
    ) -> Vec<Violation> {
        let mut out = vec![];
        // C02 looks at what was actually submitted while handling this block ...
        let submitted = rpcs;
        // ... every other decision may also rely on verdicts obtained since the previous block.
        let mut window: Vec<(&'static str, Option<Txid>, Verdict)> = self
            .recent_verdicts
            .iter()
            .map(|(t, v)| ("sendrawtransaction", Some(*t), *v))
            .collect();
        window.extend_from_slice(rpcs);
        let rpcs = &window[..];
        let block = &node.blocks[&hash].0;
        if height != self.h + 1 || block.header.prev_blockhash != self.tip() {
            out.push(viol(
                "C19",
                "connect_order",
                format!("tower connected {hash}@{height} on top of {}@{}", self.tip(), self.h),
            ));
        }
        self.shown.push(hash);
        self.ever_shown.insert(hash);
        self.h = height;
        self.index_prev_len = self.index_len;
        self.cache_len = (self.cache_len + 1).min(6);
        self.index_len = (self.index_len + 1).min(100);
        let first_after_reorg = self.reorg_pending;
        self.reorg_pending = false;

        // 1. Gatekeeper: purge users whose grace period is over.
        let outdated: Vec<u32> = self
            .users
            .iter()
            .filter(|(_, m)| height as u64 >= m.expiry as u64 + self.cfg.grace as u64)
            .map(|(u, _)| *u)
            .collect();
        for u in outdated {
            self.users.remove(&u);
            self.recs.retain(|k, _| k.0 != u);
            self.probe("user_purged");
        }

        // C02: every submission in this block must be justified by the records as they stand now.
        out.extend(self.check_justified(node, submitted, None, first_after_reorg));

        // 2. Watcher: breaches.
        let mut dropped: Vec<(u32, u32)> = vec![];
        for tx in block.txdata.iter().skip(1) {
            let Some(d) = self.dispute_ids.get(&tx.compute_txid()).cloned() else { continue };
            let keys: Vec<(u32, u32)> = self.recs.keys().filter(|k| k.1 == d).cloned().collect();
            if keys.len() > 1 {
                self.probe("two_users_one_locator_in_block");
            }
            for k in keys {
                let rec = self.recs.get(&k).unwrap().clone();
                if rec.unspecified {
                    continue;
                }
                match rec.state {
                    RecState::Watched => {
                        self.probe("breach_in_block");
                        match &rec.penalty {
                            None => {
                                self.probe("breach_invalid_blob");
                                dropped.push(k);
                            }
                            Some(p) => match self.breach_outcome(node, p, rpcs, true) {
                                Ok(Outcome::Responded) => {
                                    let ptxid = p.compute_txid();
                                    let given_this_interval = self.recent_verdicts.get(&ptxid) == Some(&Verdict::Ok);
                                    if !node.has_tx(&ptxid) && !given_this_interval {
                                        out.push(viol(
                                            "C02",
                                            "responded_without_node_having_penalty",
                                            format!("block {height}: (user {}, dispute {}) responded but node does not have {ptxid}", k.0, k.1),
                                        ));
                                    }
                                    let conf = self.in_index_before_tip(node, &ptxid);
                                    let r = self.recs.get_mut(&k).unwrap();
                                    r.state = RecState::Responded;
                                    r.conf = conf;
                                    r.blocks_since_send = height;
                                    r.disconnect_seen = false;
                                    r.needs_reannounce = false;
                                }
                                Ok(Outcome::Dropped) => {
                                    self.probe("breach_rejected_by_node");
                                    dropped.push(k);
                                }
                                Ok(Outcome::Unspecified) => {
                                    self.probe("breach_penalty_already_in_chain");
                                    self.recs.get_mut(&k).unwrap().unspecified = true;
                                }
                                Err(why) => {
                                    out.push(viol(
                                        "C01",
                                        "breach_unanswered",
                                        format!("block {height}: breach of (user {}, dispute {}) not answered: {why}", k.0, k.1),
                                    ));
                                    self.recs.get_mut(&k).unwrap().unspecified = true;
                                }
                            },
                        }
                    }
                    RecState::Responded => {
                        // The dispute of an already responded appointment shows up (again): a rejected re-submission drops it.
                        if let Some(p) = &rec.penalty {
                            let ptxid = p.compute_txid();
                            if self.in_index_before_tip(node, &ptxid).is_none() {
                                if let Some(v) = first_send_verdict(rpcs, &ptxid) {
                                    match v {
                                        Verdict::Ok | Verdict::Transport => {}
                                        Verdict::Err(RPC_VERIFY_ALREADY_IN_CHAIN) => {
                                            // The node already has the penalty in its chain (in a block the tower has not
                                            // processed yet, e.g. a block replayed after a crash): that is not the node
                                            // rejecting it, and it is not buried 100 deep either: the response stays.
                                            self.probe("responded_dispute_again_penalty_already_in_chain");
                                        }
                                        _ => dropped.push(k),
                                    }
                                }
                            }
                        }
                    }
                }
            }
        }
        for k in dropped.drain(..) {
            if let Some(r) = self.recs.remove(&k) {
                if let Some(m) = self.users.get_mut(&k.0) {
                    m.forfeited += slots_for(r.blob.len()) as u64;
                }
            }
        }

        // 3. Responder.
        let block_txids: BTreeSet<Txid> = block.txdata.iter().map(|t| t.compute_txid()).collect();
        let keys: Vec<(u32, u32)> = self
            .recs
            .iter()
            .filter(|(_, r)| r.state == RecState::Responded && !r.unspecified)
            .map(|(k, _)| *k)
            .collect();
        let mut completed = vec![];
        let mut rejected = vec![];
        for k in keys {
            let rec = self.recs.get(&k).unwrap().clone();
            let p = rec.penalty.as_ref().unwrap();
            let ptxid = p.compute_txid();
            let dtx = self.uni.dispute(k.1);
            let dtxid = dtx.compute_txid();
            let mut r = rec.clone();
            if block_txids.contains(&ptxid) {
                r.conf = Some(height);
                r.needs_reannounce = false;
                self.probe("penalty_confirmed");
            } else if let Some(hc) = r.conf {
                if height == hc + 100 {
                    completed.push(k);
                    self.probe("tracker_completed");
                }
            }
            if r.needs_reannounce && first_after_reorg && !completed.contains(&k) {
                // C04(1): the confirming block was disconnected: dispute and penalty must be re-submitted now.
                self.probe("reannounce_after_reorg");
                let vd = first_send_verdict(rpcs, &dtxid);
                let vp = first_send_verdict(rpcs, &ptxid);
                match vd {
                    None if self.reannounce_optional && node.has_tx(&dtxid) && node.has_tx(&ptxid) => {
                        self.probe("reannounce_already_done_before_restart");
                    }
                    None => out.push(viol(
                        "C04",
                        "dispute_not_reannounced",
                        format!("block {height}: confirming block of (user {}, dispute {}) was disconnected but the dispute tx was not re-submitted", k.0, k.1),
                    )),
                    Some(Verdict::Ok) | Some(Verdict::Err(RPC_VERIFY_ALREADY_IN_CHAIN)) => match vp {
                        None => out.push(viol(
                            "C04",
                            "penalty_not_reannounced",
                            format!("block {height}: confirming block of (user {}, dispute {}) was disconnected but the penalty was not re-submitted", k.0, k.1),
                        )),
                        Some(Verdict::Ok) | Some(Verdict::Err(RPC_VERIFY_ALREADY_IN_CHAIN)) => {}
                        Some(Verdict::Transport) => {}
                        Some(_) => rejected.push(k),
                    },
                    Some(Verdict::Transport) => {}
                    Some(_) => rejected.push(k),
                }
                r.needs_reannounce = false;
            } else if r.conf.is_none()
                && !completed.contains(&k)
                && matches!(first_send_verdict(submitted, &dtxid), Some(v) if !matches!(v, Verdict::Ok | Verdict::Transport | Verdict::Err(RPC_VERIFY_ALREADY_IN_CHAIN)))
            {
                // The tower re-announced the dispute of an unconfirmed response (justified after a reorg, see C02) and the
                // node refused it: the dispute cannot confirm on this chain any more, nor can the penalty. "A tracker
                // whose re-submission the node rejects is dropped".
                self.probe("dispute_rejected_on_reannouncement");
                rejected.push(k);
            } else if r.conf.is_none() && !completed.contains(&k) && !rejected.contains(&k) {
                // Unconfirmed: a re-submission in this block that the node refuses drops the tracker.
                let actual = first_send_verdict(submitted, &ptxid);
                if actual.is_none() {
                    if let Some(v) = self.recent_verdicts.get(&ptxid) {
                        if !matches!(v, Verdict::Ok | Verdict::Transport) {
                            // The node refused this penalty earlier in this block interval; if the tower re-submits now it may
                            // rely on that answer without asking again.
                            r.adopt_once = true;
                        }
                    }
                }
                if let Some(v) = actual {
                    match v {
                        Verdict::Ok | Verdict::Transport => {}
                        Verdict::Err(RPC_VERIFY_ALREADY_IN_CHAIN) => {
                            // Penalty got confirmed in a block the tower has not processed yet (lagging poll): the node has
                            // it, nothing was rejected and nothing is buried 100 deep yet, so the tracker stays (C04: forgotten
                            // when, and only when, buried 100 deep; dropped when the node rejects the re-submission).
                            self.probe("rebroadcast_already_in_chain");
                        }
                        _ => {
                            // Several trackers may carry the same penalty: the refused submission belongs to one of them
                            // (each has its own re-submission schedule), so each may be dropped now or later.
                            let sharing = self
                                .recs
                                .values()
                                .filter(|o| {
                                    o.state == RecState::Responded
                                        && o.conf.is_none()
                                        && o.penalty.as_ref().map(|p| p.compute_txid()) == Some(ptxid)
                                })
                                .count();
                            if sharing > 1 {
                                r.adopt_once = true;
                                self.probe("shared_penalty_rejected");
                            } else {
                                rejected.push(k)
                            }
                        }
                    }
                }
            }
            // "Periodically" is measured in chain height (blocks re-connected below the last submission height during a
            // reorg are not time passing): an unconfirmed penalty must be re-submitted at least every 12 heights.
            if first_send_verdict(submitted, &ptxid).is_some() || r.conf.is_some() {
                r.blocks_since_send = r.blocks_since_send.max(height);
            } else if height > r.blocks_since_send + 12 && !r.unspecified {
                out.push(viol(
                    "C04",
                    "no_periodic_rebroadcast",
                    format!(
                        "block {height}: penalty of (user {}, dispute {}) unconfirmed and not re-submitted since height {}",
                        k.0, k.1, r.blocks_since_send
                    ),
                ));
                r.blocks_since_send = height;
            }
            r.needs_reannounce = false;
            self.recs.insert(k, r);
        }
        let mut refunded_users: BTreeSet<u32> = BTreeSet::new();
        for k in completed {
            if let Some(r) = self.recs.remove(&k) {
                if let Some(m) = self.users.get_mut(&k.0) {
                    let s = slots_for(r.blob.len());
                    m.available = m.available.wrapping_add(s);
                    refunded_users.insert(k.0);
                }
            }
        }
        // C04: "its slots refunded" includes the copy that survives a restart -- the refund of every tracker completed by
        // this block must be in the users table when the block has been handled (judged here, before the general
        // three-copies comparison of C07 adopts the persisted number).
        if let Some(db) = db {
            for u in refunded_users {
                if let Some(m) = self.users.get(&u) {
                    if m.tainted {
                        continue;
                    }
                    if let Some(row) = db.users.iter().find(|r| r.user_id == m.pk) {
                        if row.available != m.available {
                            out.push(viol(
                                "C04",
                                "refund_not_persisted",
                                format!(
                                    "block {height}: trackers of user {u} completed (100 confirmations): the persisted balance is {} where every refund gives {}",
                                    row.available, m.available
                                ),
                            ));
                        }
                    }
                }
            }
        }
        for k in rejected {
            self.probe("tracker_rejected_on_resubmission");
            if let Some(r) = self.recs.remove(&k) {
                if let Some(m) = self.users.get_mut(&k.0) {
                    m.forfeited += slots_for(r.blob.len()) as u64;
                }
            }
        }
        for r in self.recs.values_mut() {
            r.needs_reannounce = false;
        }

        self.recent_verdicts.clear();
        self.reannounce_optional = false;
        if let Some(db) = db {
            let at = format!("after connecting height {height}");
            out.extend(self.compare_db(node, db, &at, true));
            out.extend(self.check_conservation(db, &at));
        }
        out
    }

    /// C02: every `sendrawtransaction` must be the penalty of a held, triggered appointment, or the dispute of a
    /// responded one after a reorg. `accepting`: the record being accepted by the current request, if any.
    pub fn check_justified(
        &self,
        node: &NodeState,
        rpcs: &[(&'static str, Option<Txid>, Verdict)],
        accepting: Option<&Rec>,
        after_reorg: bool,
    ) -> Vec<Violation> {
        let mut out = vec![];
        for (m, t, _) in rpcs {
            if *m != "sendrawtransaction" {
                continue;
            }
            let Some(txid) = t else {
                out.push(viol("C02", "undecodable_submission", "tower submitted bytes that are not a transaction".into()));
                continue;
            };
            let mut ok = false;
            for r in self.recs.values().chain(accepting) {
                let dtxid = self.uni.dispute(r.d).compute_txid();
                if let Some(p) = &r.penalty {
                    if p.compute_txid() == *txid {
                        let dispute_seen = r.state == RecState::Responded
                            || self.height_in_shown(node, &dtxid).is_some();
                        if dispute_seen {
                            ok = true;
                            break;
                        }
                    }
                }
                if dtxid == *txid && r.state == RecState::Responded && (after_reorg || r.disconnect_seen) {
                    ok = true;
                    break;
                }
            }
            if !ok {
                out.push(viol(
                    "C02",
                    "unjustified_submission",
                    format!("tower submitted {txid} at height {} which no held, triggered appointment justifies", self.h),
                ));
            }
        }
        out
    }
}

impl Model {
    /// Remembers the first verdict per transaction of a window (what the tower may reuse until the next block).
    pub fn remember_verdicts(&mut self, rpcs: &[(&'static str, Option<Txid>, Verdict)]) {
        for (m, t, v) in rpcs {
            if *m == "sendrawtransaction" && *v != Verdict::Transport {
                if let Some(t) = t {
                    self.recent_verdicts.entry(*t).or_insert(*v);
                }
            }
        }
    }
}

impl Model {
    /// C19: both bounded look-ups must equal the list-of-blocks specification: the last `len` blocks of the chain the
    /// tower was shown (len follows push / evict-oldest / pop-on-disconnect, capped at N), every key mapped to the
    /// right transaction / block, and every block reported at its true height.
    pub fn check_indexes(&mut self, node: &NodeState, x: &crate::events::IndexSnap, at: &str) -> Vec<Violation> {
        let mut out = vec![];
        let n = self.shown.len();
        for (name, len, blocks) in [
            ("locator cache (N=6)", self.cache_len, &x.cache_blocks),
            ("tx index (N=100)", self.index_len, &x.index_blocks),
        ] {
            let want: Vec<(BlockHash, u32)> = (n.saturating_sub(len)..n)
                .map(|i| (self.shown[i], self.base + i as u32))
                .collect();
            let got: Vec<BlockHash> = blocks.iter().map(|b| b.0).collect();
            if got != want.iter().map(|w| w.0).collect::<Vec<_>>() {
                out.push(viol(
                    "C19",
                    "blocks_covered",
                    format!("{at}: {name} covers {} blocks ending at {:?}, expected the last {} blocks of the active chain", got.len(), got.last(), want.len()),
                ));
                continue;
            }
            for ((bh, _, reported), (_, truth)) in blocks.iter().zip(want.iter()) {
                if *reported != Some(*truth as usize) {
                    out.push(viol(
                        "C19",
                        "block_height",
                        format!("{at}: {name} reports height {:?} for block {bh} whose true height is {truth}", reported),
                    ));
                    break;
                }
            }
        }
        // entries
        let want_cache = self.window_txids(node, self.cache_len);
        let got_cache: BTreeMap<Vec<u8>, Txid> = x.cache_entries.iter().cloned().collect();
        let want_cache_l: BTreeMap<Vec<u8>, Txid> = want_cache.keys().map(|t| (Locator::new(*t).to_vec(), *t)).collect();
        if got_cache != want_cache_l {
            out.push(viol(
                "C19",
                "cache_entries",
                format!("{at}: locator cache holds {} entries, the last {} blocks hold {} transactions", got_cache.len(), self.cache_len, want_cache_l.len()),
            ));
        }
        let want_index = self.window_txids(node, self.index_len);
        let got_index: BTreeMap<Txid, BlockHash> = x.index_entries.iter().cloned().collect();
        let want_index_b: BTreeMap<Txid, BlockHash> = want_index.iter().map(|(t, (b, _))| (*t, *b)).collect();
        if got_index != want_index_b {
            out.push(viol(
                "C19",
                "index_entries",
                format!("{at}: tx index holds {} entries, the last {} blocks hold {} transactions (or some map to the wrong block)", got_index.len(), self.index_len, want_index_b.len()),
            ));
        }
        self.probe("index_snapshot_checked");
        if self.cache_len < 6 {
            self.probe("index_checked_while_refilling");
        }
        out
    }
}

pub fn first_send_verdict(rpcs: &[(&'static str, Option<Txid>, Verdict)], txid: &Txid) -> Option<Verdict> {
    rpcs.iter()
        .find(|(m, t, _)| *m == "sendrawtransaction" && *t == Some(*txid))
        .map(|x| x.2)
}

pub fn rpcs_of(events: &[Event]) -> Vec<(&'static str, Option<Txid>, Verdict)> {
    events
        .iter()
        .filter_map(|e| match e {
            Event::Rpc { method, txid, verdict } => Some((*method, *txid, *verdict)),
            _ => None,
        })
        .collect()
}
