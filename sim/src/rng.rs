//! The only PRNG of the simulator. Everything random is derived from VERIF_SEED through this.

#[derive(Clone, Debug)]
pub struct Rng {
    s: [u64; 4],
}

pub fn splitmix(mut x: u64) -> u64 {
    x = x.wrapping_add(0x9E3779B97F4A7C15);
    let mut z = x;
    z = (z ^ (z >> 30)).wrapping_mul(0xBF58476D1CE4E5B9);
    z = (z ^ (z >> 27)).wrapping_mul(0x94D049BB133111EB);
    z ^ (z >> 31)
}

/// Derives an independent seed from (root, label, index).
pub fn derive(root: u64, label: &str, index: u64) -> u64 {
    let mut h = splitmix(root ^ 0xA5A5_5A5A_1234_5678);
    for b in label.as_bytes() {
        h = splitmix(h ^ (*b as u64));
    }
    splitmix(h ^ splitmix(index))
}

impl Rng {
    pub fn new(seed: u64) -> Self {
        let mut x = seed;
        let mut s = [0u64; 4];
        for v in s.iter_mut() {
            x = splitmix(x);
            *v = x;
        }
        if s == [0; 4] {
            s[0] = 1;
        }
        Rng { s }
    }

    pub fn next_u64(&mut self) -> u64 {
        let result = self.s[1].wrapping_mul(5).rotate_left(7).wrapping_mul(9);
        let t = self.s[1] << 17;
        self.s[2] ^= self.s[0];
        self.s[3] ^= self.s[1];
        self.s[1] ^= self.s[2];
        self.s[0] ^= self.s[3];
        self.s[2] ^= t;
        self.s[3] = self.s[3].rotate_left(45);
        result
    }

    /// Uniform in [0, n). n must be > 0.
    pub fn below(&mut self, n: u64) -> u64 {
        debug_assert!(n > 0);
        // Multiply-shift; bias is irrelevant here.
        ((self.next_u64() as u128 * n as u128) >> 64) as u64
    }

    pub fn range(&mut self, lo: u64, hi_incl: u64) -> u64 {
        lo + self.below(hi_incl - lo + 1)
    }

    pub fn chance(&mut self, num: u64, den: u64) -> bool {
        self.below(den) < num
    }

    pub fn pick<'a, T>(&mut self, xs: &'a [T]) -> &'a T {
        &xs[self.below(xs.len() as u64) as usize]
    }

    /// Weighted choice: returns the index.
    pub fn weighted(&mut self, weights: &[u32]) -> usize {
        let total: u64 = weights.iter().map(|w| *w as u64).sum();
        let mut x = self.below(total.max(1));
        for (i, w) in weights.iter().enumerate() {
            if x < *w as u64 {
                return i;
            }
            x -= *w as u64;
        }
        weights.len() - 1
    }

    pub fn bytes(&mut self, n: usize) -> Vec<u8> {
        let mut v = Vec::with_capacity(n);
        while v.len() < n {
            let x = self.next_u64().to_le_bytes();
            let take = (n - v.len()).min(8);
            v.extend_from_slice(&x[..take]);
        }
        v
    }

    pub fn shuffle<T>(&mut self, xs: &mut [T]) {
        for i in (1..xs.len()).rev() {
            let j = self.below(i as u64 + 1) as usize;
            xs.swap(i, j);
        }
    }
}
