//! Baton scheduler: simulated tower threads are real OS threads, but exactly one runs at a time. At every intercepted
//! synchronisation point (mutex acquisition, condvar wait, node RPC, thread end) the running thread hands the baton
//! back and the scheduler -- driven only by the seeded PRNG -- picks who goes next among the *enabled* threads.
//! The list of choices is the schedule; a deadlock is "unfinished threads exist and none is enabled", never a time-out.

use std::collections::{BTreeMap, HashMap};
use std::sync::{Arc, Condvar, Mutex};

use crate::rng::Rng;

pub struct SchedAbort;

#[derive(Clone, Debug)]
pub enum Strategy {
    /// Uniform choice among enabled threads.
    Random,
    /// PCT: random priorities, `depth - 1` priority change points at random step numbers in [1, est_steps].
    Pct { depth: u32, est_steps: u32 },
    /// Fixed priorities (first = highest), no change points: the sequential order of the given threads.
    Order(Vec<usize>),
    /// Replays recorded choices; falls back to the lowest enabled id when exhausted.
    Replay(Vec<u32>),
}

#[derive(Clone, Debug, PartialEq, Eq)]
pub enum Want {
    Run,
    Lock(usize),
    CvWait(usize),
    /// In a timed wait: may run (the time-out fires), but only when nobody else can -- simulated time advances only
    /// when every other thread is blocked.
    Sleeping,
    Finished,
}

struct T {
    name: String,
    want: Want,
    prio: i64,
}

struct Inner {
    threads: Vec<T>,
    owners: HashMap<usize, usize>,
    current: Option<usize>,
    rng: Rng,
    strategy: Strategy,
    change_points: Vec<u64>,
    trace: Vec<u32>,
    steps: u64,
    max_steps: u64,
    abort: bool,
    verdict: Option<String>,
    verdict_detail: Option<String>,
    all_done: bool,
    names: BTreeMap<usize, String>,
    spurious_wakeups: bool,
    /// timed waits may return before their time-out without having been notified (legal for a condition variable)
    early_timed_wakeups: bool,
    /// its own stream, so that a replayed trace (which does not draw scheduling decisions) sees the same wake-ups
    wake_rng: Rng,
    early_wakeups_fired: u64,
    low_prio: i64,
    /// lock-order edges (held -> acquired), by mutex name where known
    pub edges: std::collections::BTreeSet<(usize, usize)>,
    held: Vec<Vec<usize>>,
    preemptions: u64,
    last: Option<usize>,
}

pub struct Sched {
    inner: Mutex<Inner>,
    cv: Condvar,
}

thread_local! {
    static TID: std::cell::Cell<Option<usize>> = const { std::cell::Cell::new(None) };
}

#[derive(Clone, Debug)]
pub struct SchedResult {
    pub trace: Vec<u32>,
    pub steps: u64,
    /// None = every thread finished; Some(description) = deadlock or step limit.
    pub stuck: Option<String>,
    pub stuck_detail: Option<String>,
    pub preemptions: u64,
    pub lock_order_cycle: bool,
}

impl Sched {
    pub fn new(strategy: Strategy, seed: u64, n_threads: usize, max_steps: u64, spurious_wakeups: bool) -> Arc<Self> {
        let mut rng = Rng::new(seed);
        let mut prios: Vec<i64> = (0..n_threads as i64).map(|i| 1000 + i).collect();
        let mut change_points = vec![];
        match &strategy {
            Strategy::Pct { depth, est_steps } => {
                rng.shuffle(&mut prios);
                for _ in 1..*depth {
                    change_points.push(rng.range(1, (*est_steps).max(1) as u64));
                }
            }
            Strategy::Order(order) => {
                for (rank, t) in order.iter().enumerate() {
                    if *t < n_threads {
                        prios[*t] = 2000 - rank as i64;
                    }
                }
            }
            _ => {}
        }
        let threads = (0..n_threads)
            .map(|i| T {
                name: format!("t{i}"),
                want: Want::Run,
                prio: prios[i],
            })
            .collect();
        Arc::new(Sched {
            inner: Mutex::new(Inner {
                threads,
                owners: HashMap::new(),
                current: None,
                rng,
                strategy,
                change_points,
                trace: vec![],
                steps: 0,
                max_steps,
                abort: false,
                verdict: None,
                verdict_detail: None,
                all_done: false,
                names: BTreeMap::new(),
                spurious_wakeups,
                early_timed_wakeups: false,
                wake_rng: Rng::new(crate::rng::derive(seed, "early-wake", 0)),
                early_wakeups_fired: 0,
                low_prio: 0,
                edges: Default::default(),
                held: vec![vec![]; n_threads],
                preemptions: 0,
                last: None,
            }),
            cv: Condvar::new(),
        })
    }

    pub fn name_mutex(&self, id: usize, name: &str) {
        self.inner.lock().unwrap_or_else(|e| e.into_inner()).names.insert(id, name.to_string());
    }

    /// Switches spurious early returns of timed waits on, drawn from a stream of their own (a function of the scenario,
    /// not of the schedule's seed: a replayed trace sees the same wake-ups).
    pub fn set_early_timed_wakeups(&self, seed: u64) {
        let mut g = self.inner.lock().unwrap_or_else(|e| e.into_inner());
        g.early_timed_wakeups = true;
        g.wake_rng = Rng::new(seed);
    }

    pub fn early_wakeups_fired(&self) -> u64 {
        self.inner.lock().unwrap_or_else(|e| e.into_inner()).early_wakeups_fired
    }

    pub fn set_thread_name(&self, tid: usize, name: &str) {
        self.inner.lock().unwrap_or_else(|e| e.into_inner()).threads[tid].name = name.to_string();
    }

    /// Called by a simulated thread at its very start: registers the OS thread and parks until first scheduled.
    pub fn enter(&self, tid: usize) {
        TID.with(|c| c.set(Some(tid)));
        let mut g = self.inner.lock().unwrap_or_else(|e| e.into_inner());
        while g.current != Some(tid) {
            if g.abort {
                drop(g);
                TID.with(|c| c.set(None));
                std::panic::panic_any(SchedAbort);
            }
            g = self.cv.wait(g).unwrap_or_else(|e| e.into_inner());
        }
    }

    /// Called by a simulated thread when it is done (normally or by panic).
    pub fn exit(&self, tid: usize) {
        TID.with(|c| c.set(None));
        let mut g = self.inner.lock().unwrap_or_else(|e| e.into_inner());
        g.threads[tid].want = Want::Finished;
        // release whatever it still holds logically (a panicking thread drops its guards while unwinding)
        g.owners.retain(|_, o| *o != tid);
        if g.current == Some(tid) || g.current.is_none() {
            Self::schedule_next(&mut g);
        }
        self.cv.notify_all();
    }

    fn enabled(g: &Inner, i: usize) -> bool {
        match &g.threads[i].want {
            Want::Run => true,
            Want::Lock(m) => !g.owners.contains_key(m),
            Want::CvWait(_) => false,
            Want::Sleeping => true,
            Want::Finished => false,
        }
    }

    fn describe(g: &Inner) -> String {
        let mut parts = vec![];
        for t in g.threads.iter() {
            match &t.want {
                Want::Finished => {}
                Want::Run => parts.push(format!("{}:runnable", t.name)),
                Want::Sleeping => parts.push(format!("{}:timed_wait", t.name)),
                Want::Lock(m) => {
                    let owner = g.owners.get(m).map(|o| g.threads[*o].name.clone()).unwrap_or_default();
                    parts.push(format!(
                        "{}:lock({})held_by({})",
                        t.name,
                        g.names.get(m).cloned().unwrap_or_else(|| "?".into()),
                        owner
                    ));
                }
                Want::CvWait(c) => parts.push(format!(
                    "{}:wait({})",
                    t.name,
                    g.names.get(c).cloned().unwrap_or_else(|| "?".into())
                )),
            }
        }
        parts.sort();
        parts.join("+")
    }

    /// Root-cause oriented summary: which mutexes / condvars the blocked threads wait for (no thread identities).
    fn describe_core(g: &Inner) -> String {
        let mut parts = std::collections::BTreeSet::new();
        for t in g.threads.iter() {
            match &t.want {
                Want::Lock(m) => {
                    parts.insert(format!("lock({})", g.names.get(m).cloned().unwrap_or_else(|| "?".into())));
                }
                Want::CvWait(c) => {
                    parts.insert(format!("wait({})", g.names.get(c).cloned().unwrap_or_else(|| "?".into())));
                }
                _ => {}
            }
        }
        parts.into_iter().collect::<Vec<_>>().join("+")
    }

    fn schedule_next(g: &mut Inner) {
        if g.abort {
            return;
        }
        g.steps += 1;
        if g.steps > g.max_steps {
            g.abort = true;
            g.current = None;
            g.verdict = Some(format!("step_limit:{}", Self::describe_core(g)));
            g.verdict_detail = Some(Self::describe(g));
            return;
        }
        let n = g.threads.len();
        let mut en: Vec<usize> = (0..n).filter(|i| Self::enabled(g, *i)).collect();
        // timed waits only fire when nothing else can run
        // (with early wake-ups switched on, once in a while a timed waiter gets its turn although others could run: time
        // passes whatever the other threads are doing)
        if en.iter().any(|i| g.threads[*i].want != Want::Sleeping) && !(g.early_timed_wakeups && g.wake_rng.below(6) == 0) {
            en.retain(|i| g.threads[*i].want != Want::Sleeping);
        }
        if en.is_empty() && g.spurious_wakeups {
            // a condvar waiter may wake up spuriously (legal for std::sync::Condvar)
            en = (0..n).filter(|i| matches!(g.threads[*i].want, Want::CvWait(_))).collect();
            if !en.is_empty() {
                let pick = en[g.rng.below(en.len() as u64) as usize];
                g.threads[pick].want = Want::Run;
                en = vec![pick];
            }
        }
        if en.is_empty() {
            if g.threads.iter().all(|t| t.want == Want::Finished) {
                g.all_done = true;
                g.current = None;
            } else {
                g.abort = true;
                g.current = None;
                g.verdict = Some(format!("deadlock:{}", Self::describe_core(g)));
                g.verdict_detail = Some(Self::describe(g));
            }
            return;
        }
        let step = g.steps;
        let pick = match &mut g.strategy {
            Strategy::Random => en[g.rng.below(en.len() as u64) as usize],
            Strategy::Pct { .. } | Strategy::Order(_) => {
                if g.change_points.contains(&step) {
                    // demote the thread that would run now
                    if let Some(top) = en.iter().max_by_key(|i| g.threads[**i].prio).cloned() {
                        g.low_prio -= 1;
                        g.threads[top].prio = g.low_prio;
                    }
                }
                *en.iter().max_by_key(|i| g.threads[**i].prio).unwrap()
            }
            Strategy::Replay(choices) => {
                let idx = g.trace.len();
                match choices.get(idx) {
                    Some(c) if en.contains(&(*c as usize)) => *c as usize,
                    other => {
                        if std::env::var("SIM_DEBUG").is_ok() {
                            eprintln!("[sched] replay diverges at choice #{idx}: recorded {other:?}, enabled {en:?}");
                        }
                        en[0]
                    }
                }
            }
        };
        if let Some(last) = g.last {
            if last != pick && Self::enabled(g, last) {
                g.preemptions += 1;
            }
        }
        g.last = Some(pick);
        g.trace.push(pick as u32);
        g.current = Some(pick);
    }

    fn yield_point(&self, want: Want) {
        let Some(me) = TID.with(|c| c.get()) else { return };
        let mut g = self.inner.lock().unwrap_or_else(|e| e.into_inner());
        if g.abort {
            drop(g);
            std::panic::panic_any(SchedAbort);
        }
        g.threads[me].want = want;
        Self::schedule_next(&mut g);
        self.cv.notify_all();
        while g.current != Some(me) {
            if g.abort {
                drop(g);
                std::panic::panic_any(SchedAbort);
            }
            g = self.cv.wait(g).unwrap_or_else(|e| e.into_inner());
        }
        g.threads[me].want = Want::Run;
    }

    /// Plain scheduling point (node RPC, between operations).
    pub fn yield_now(&self) {
        self.yield_point(Want::Run);
    }

    /// Controller: starts the run and waits until every thread finished or the run got stuck.
    pub fn run(&self) -> SchedResult {
        let mut g = self.inner.lock().unwrap_or_else(|e| e.into_inner());
        Self::schedule_next(&mut g);
        self.cv.notify_all();
        while !g.all_done && !g.abort {
            g = self.cv.wait(g).unwrap_or_else(|e| e.into_inner());
        }
        // cycle in the lock-order graph?
        let mut cyc = false;
        for (a, b) in g.edges.iter() {
            if a != b && g.edges.contains(&(*b, *a)) {
                cyc = true;
            }
        }
        SchedResult {
            trace: g.trace.clone(),
            steps: g.steps,
            stuck: g.verdict.clone(),
            stuck_detail: g.verdict_detail.clone(),
            preemptions: g.preemptions,
            lock_order_cycle: cyc,
        }
    }

    pub fn managed() -> bool {
        TID.with(|c| c.get()).is_some()
    }
}

impl teos_common::verif::SyncHooks for Sched {
    fn before_lock(&self, mutex_id: usize) {
        if Sched::managed() {
            self.yield_point(Want::Lock(mutex_id));
        }
    }

    fn after_lock(&self, mutex_id: usize) {
        if let Some(me) = TID.with(|c| c.get()) {
            let mut g = self.inner.lock().unwrap_or_else(|e| e.into_inner());
            g.owners.insert(mutex_id, me);
            let held = g.held[me].clone();
            for h in held {
                g.edges.insert((h, mutex_id));
            }
            g.held[me].push(mutex_id);
            drop(g);
            crate::conc::on_after_lock(mutex_id);
        }
    }

    fn after_unlock(&self, mutex_id: usize) {
        if let Some(me) = TID.with(|c| c.get()) {
            let mut g = self.inner.lock().unwrap_or_else(|e| e.into_inner());
            if g.owners.get(&mutex_id) == Some(&me) {
                g.owners.remove(&mutex_id);
            }
            if let Some(pos) = g.held[me].iter().rposition(|m| *m == mutex_id) {
                g.held[me].remove(pos);
            }
        }
    }

    fn cv_wait(&self, cv_id: usize, _mutex_id: usize) {
        if Sched::managed() {
            self.yield_point(Want::CvWait(cv_id));
        }
    }

    fn cv_wait_timeout(&self, _cv_id: usize, _mutex_id: usize) -> bool {
        // A timed wait can always return: it is a plain scheduling point that reports a time-out (the caller re-checks
        // its predicate, as with any condition variable). When early wake-ups are switched on, one return in three
        // reports "woken up before the time-out" although nobody notified: a spurious wake-up.
        if Sched::managed() {
            self.yield_point(Want::Sleeping);
            let mut g = self.inner.lock().unwrap_or_else(|e| e.into_inner());
            if g.early_timed_wakeups && g.wake_rng.below(3) == 0 {
                g.early_wakeups_fired += 1;
                return false;
            }
        }
        true
    }

    fn cv_notify(&self, cv_id: usize) {
        let mut g = self.inner.lock().unwrap_or_else(|e| e.into_inner());
        for t in g.threads.iter_mut() {
            if t.want == Want::CvWait(cv_id) {
                t.want = Want::Run;
            }
        }
    }
}
