//! Generation of client histories and the worker-side glue for the client engine (C05, C13, C14, C18).

use serde::{Deserialize, Serialize};

use crate::client::{run_client, CFoundC, COp, ClientCfg, ClientHistory, ClientResult, Reply};
use crate::rng::{derive, Rng};

#[derive(Serialize, Deserialize, Clone, Debug)]
pub struct ClientReplay {
    pub property: String,
    pub signature: String,
    pub detail: String,
    pub engine: String,
    pub client_history: ClientHistory,
}

fn bad_reply(r: &mut Rng, for_register: bool) -> Reply {
    match r.below(if for_register { 9 } else { 7 }) {
        0 => Reply::Refuse,
        1 => Reply::ApiError(*r.pick(&[7u8, 7, 33, 34, 35, 36, 255, 1])),
        2 => Reply::NotJson(r.below(4) as u8),
        3 => Reply::WrongShape(r.below(5) as u8),
        4 => Reply::OtherKeySignature,
        5 => Reply::MalformedSignature(r.below(4) as u8),
        6 => Reply::Refuse,
        7 => Reply::NotExtending(r.below(2) as u8),
        _ => Reply::OtherUserReceipt,
    }
}

pub fn gen_client_history(property: &str, seed: u64) -> ClientHistory {
    let mut r = Rng::new(derive(seed, "client", 0));
    let n_towers = r.range(1, 3) as u32;
    let cfg = ClientCfg {
        max_retry_time: *r.pick(&[20u32, 60, 120]),
        auto_retry_delay: *r.pick(&[30u32, 90, 300]),
        max_interval: *r.pick(&[3u32, 10, 30]),
        n_towers,
    };
    let mut ops = vec![];
    // registrations (sometimes preceded by a bad reply, which must not be recorded)
    for t in 0..n_towers {
        if r.chance(1, 4) {
            let b = bad_reply(&mut r, true);
            ops.push(COp::Script { t, replies: vec![b] });
            ops.push(COp::Register { t });
        }
        if r.chance(9, 10) {
            ops.push(COp::Register { t });
        }
    }
    let mut next_c = 0u32;
    let n_ops = r.range(6, 30);
    let (w_revoke, w_script, w_outage, w_advance, w_kill, w_abandon, w_misc, w_dup) = match property {
        "C13" => (25, 8, 25, 30, 4, 2, 8, 3),
        "C14" => (30, 35, 5, 12, 3, 2, 8, 5),
        "C18" => (25, 15, 8, 10, 12, 12, 12, 6),
        _ => (30, 22, 10, 12, 8, 4, 6, 8),
    };
    let weights = [w_revoke, w_script, w_outage, w_advance, w_kill, w_abandon, w_misc, w_dup];
    for _ in 0..n_ops {
        match r.weighted(&weights) {
            0 => {
                ops.push(COp::Revoke { c: next_c });
                next_c += 1;
            }
            1 => {
                let t = r.below(n_towers as u64) as u32;
                let n = r.range(1, 3);
                let replies: Vec<Reply> = (0..n).map(|_| if r.chance(1, 5) { Reply::Accept } else { bad_reply(&mut r, false) }).collect();
                ops.push(COp::Script { t, replies });
                ops.push(COp::Revoke { c: next_c });
                next_c += 1;
            }
            2 => {
                // an outage window (or persistent API errors) around some revocations and time
                let t = r.below(n_towers as u64) as u32;
                let down = if r.chance(3, 4) { Reply::Refuse } else { bad_reply(&mut r, false) };
                ops.push(COp::Default { t, reply: down });
                for _ in 0..r.range(0, 3) {
                    ops.push(COp::Revoke { c: next_c });
                    next_c += 1;
                    if r.chance(1, 2) {
                        ops.push(COp::Advance { secs: r.range(1, cfg.max_retry_time as u64 * 2) as u32 });
                    }
                }
                if r.chance(1, 4) {
                    ops.push(COp::Kill);
                }
                if r.chance(1, 3) {
                    // the user looks at the tower while it is away (and after the retrier may have given up)
                    ops.push(COp::Advance { secs: cfg.max_retry_time + 2 * cfg.max_interval + 5 });
                    ops.push(match r.below(3) {
                        0 => COp::Register { t },
                        1 => COp::AskTower { t, c: None },
                        _ => COp::AskTower { t, c: Some(r.below(next_c.max(1) as u64) as u32) },
                    });
                }
                if r.chance(1, 8) {
                    // the user gives up on the tower while its retrier idles; the auto-retry delay then runs out
                    ops.push(COp::Advance { secs: cfg.max_retry_time + 2 * cfg.max_interval + 5 });
                    ops.push(COp::AbandonTower { t });
                    ops.push(COp::Advance { secs: cfg.auto_retry_delay + 5 });
                    if r.chance(1, 2) {
                        ops.push(COp::Register { t });
                    }
                }
                if r.chance(1, 3) {
                    ops.push(COp::RetryTower { t });
                }
                if r.chance(1, 4) {
                    // the subscription ran out while the tower was away: the retrier is the first to learn about it
                    ops.push(COp::Lapse { t });
                    match r.below(6) {
                        // ... and the renewal is answered with a receipt made out to another user
                        0 | 1 => ops.push(COp::Script { t, replies: vec![Reply::OtherUserReceipt] }),
                        // ... or with a validly signed receipt that does not extend what the client holds
                        2 => ops.push(COp::Script { t, replies: vec![Reply::NotExtending(r.below(2) as u8)] }),
                        _ => {}
                    }
                }
                if r.chance(1, 6) {
                    // the tower comes back but keeps refusing the appointments whatever is renewed: the client backs off,
                    // gives up, idles and tries again, for as long as it lasts
                    ops.push(COp::Default { t, reply: Reply::Accept });
                    ops.push(COp::LapseForGood { t });
                    if r.chance(1, 2) {
                        ops.push(COp::Latency { t, ms: *r.pick(&[20u32, 500, 5000]) });
                    }
                    if next_c > 0 && r.chance(1, 2) {
                        ops.push(COp::Revoke { c: next_c });
                        next_c += 1;
                    }
                    ops.push(COp::Advance { secs: cfg.max_retry_time + cfg.auto_retry_delay + 3 * cfg.max_interval + 30 + r.range(0, 60) as u32 });
                    ops.push(COp::ListTowers);
                    ops.push(COp::Latency { t, ms: 20 });
                }
                ops.push(COp::Default { t, reply: Reply::Accept });
                ops.push(COp::Advance { secs: cfg.auto_retry_delay + 2 * cfg.max_interval + 15 });
            }
            3 => ops.push(COp::Advance { secs: *r.pick(&[1u32, 2, 5, 30, 100, 400]) }),
            4 => ops.push(COp::Kill),
            5 => {
                let t = r.below(n_towers as u64) as u32;
                ops.push(COp::AbandonTower { t });
                if r.chance(1, 2) {
                    ops.push(COp::Register { t });
                }
            }
            6 => {
                let t = r.below(n_towers as u64) as u32;
                match r.below(5) {
                    0 => ops.push(COp::ListTowers),
                    1 => ops.push(COp::GetTowerInfo { t }),
                    2 => {
                        if r.chance(1, 2) {
                            ops.push(COp::RetryTower { t })
                        } else {
                            ops.push(COp::AskTower { t, c: if r.chance(1, 2) { None } else { Some(r.below(next_c.max(1) as u64) as u32) } })
                        }
                    }
                    3 => {
                        if r.chance(1, 3) {
                            ops.push(COp::Lapse { t })
                        } else {
                            ops.push(COp::Latency { t, ms: *r.pick(&[0u32, 20, 500, 5000]) })
                        }
                    }
                    _ => ops.push(COp::Register { t }),
                }
            }
            _ => {
                if next_c > 0 && r.chance(1, 3) {
                    // the same notification twice at once, the tower treating the two requests differently
                    let t = r.below(n_towers as u64) as u32;
                    if r.chance(2, 3) {
                        let a = if r.chance(1, 2) { Reply::Accept } else { bad_reply(&mut r, false) };
                        let b = if r.chance(1, 2) { Reply::Accept } else { bad_reply(&mut r, false) };
                        ops.push(COp::Script { t, replies: vec![a, b] });
                    }
                    if r.chance(1, 2) {
                        ops.push(COp::Latency { t, ms: *r.pick(&[20u32, 500, 5000]) });
                    }
                    ops.push(COp::RevokeTwice { c: if r.chance(1, 2) { next_c } else { r.below(next_c as u64) as u32 } });
                    next_c += 1;
                } else if next_c > 0 {
                    ops.push(COp::Revoke { c: r.below(next_c as u64) as u32 });
                }
            }
        }
    }
    // settle: everything healthy, enough time for any retry strategy to finish
    for t in 0..n_towers {
        ops.push(COp::Default { t, reply: Reply::Accept });
    }
    ops.push(COp::Advance { secs: cfg.auto_retry_delay + cfg.max_retry_time + 2 * cfg.max_interval + 20 });
    ops.push(COp::ListTowers);
    ClientHistory {
        property: property.to_string(),
        seed,
        cfg,
        ops,
        crash_at: vec![],
    }
}

pub fn client_signature(property: &str, f: &CFoundC) -> String {
    let mut s = format!("{}|{}", property, f.clause);
    if f.clause == "client_abort" || f.clause == "hook_unanswered" {
        // keep the panic location/message: different aborts are different findings
        if let Some(i) = f.detail.find("panic at ") {
            s.push('|');
            s.push_str(f.detail[i..].trim_end_matches(')'));
        }
    }
    s
}

pub fn run_client_in_thread(h: &ClientHistory) -> ClientResult {
    let h2 = h.clone();
    let (tx, rx) = std::sync::mpsc::channel();
    let handle = std::thread::Builder::new()
        .stack_size(16 << 20)
        .spawn(move || {
            let r = run_client(&h2);
            let _ = tx.send(r);
        })
        .unwrap();
    // all waiting inside the client is on the paused clock: a run takes milliseconds of real time unless the plugin
    // blocks its (single) runtime thread for real, e.g. on a std mutex it already holds
    match rx.recv_timeout(std::time::Duration::from_secs(2 * crate::check::HANG_SECS)) {
        Ok(r) => {
            let _ = handle.join();
            r
        }
        Err(std::sync::mpsc::RecvTimeoutError::Disconnected) => {
            eprintln!("HARNESS ERROR: client simulation thread died");
            std::process::exit(2)
        }
        Err(std::sync::mpsc::RecvTimeoutError::Timeout) => {
            crate::check::PROCESS_HAS_STUCK_THREAD.store(true, std::sync::atomic::Ordering::SeqCst);
            ClientResult {
                found: vec![CFoundC {
                    property: "C14",
                    clause: "client_wedged_for_real".into(),
                    op_index: 0,
                    op_kind: "?".into(),
                    detail: format!("the plugin blocked its runtime thread: the simulation did not finish within {} s of real time", 2 * crate::check::HANG_SECS),
                }],
                stats: Default::default(),
            }
        }
    }
}

fn reproduces(h: &ClientHistory, property: &str, sig: &str) -> bool {
    let res = run_client_in_thread(h);
    res.found
        .iter()
        .find(|f| f.property == property)
        .map(|f| client_signature(property, f) == sig)
        .unwrap_or(false)
}

pub fn minimise_client(orig: &ClientHistory, property: &str, sig: &str, budget: usize) -> ClientHistory {
    let mut best = orig.clone();
    let mut used = 0;
    // prefix search
    let mut lo = 0usize;
    let mut hi = best.ops.len();
    while lo < hi && used < budget {
        let mid = (lo + hi) / 2;
        let mut c = best.clone();
        c.ops.truncate(mid);
        used += 1;
        if reproduces(&c, property, sig) {
            hi = mid;
        } else {
            lo = mid + 1;
        }
    }
    if hi < best.ops.len() {
        let mut c = best.clone();
        c.ops.truncate(hi);
        used += 1;
        if reproduces(&c, property, sig) {
            best = c;
        }
    }
    let mut chunk = (best.ops.len() / 2).max(1);
    while used < budget {
        let mut i = 0;
        let mut progress = false;
        while i < best.ops.len() && used < budget {
            let end = (i + chunk).min(best.ops.len());
            let mut c = best.clone();
            c.ops.drain(i..end);
            used += 1;
            if !c.ops.is_empty() && reproduces(&c, property, sig) {
                best = c;
                progress = true;
            } else {
                i = end;
            }
        }
        if chunk == 1 && !progress {
            break;
        }
        if !progress {
            chunk /= 2;
        }
        if chunk == 0 {
            break;
        }
    }
    best
}
