//! Seeded generation of histories (swarm style: every run draws its own sizes, config and workload mix).

use crate::events::EventLog;
use crate::node::{NodeState, Universe};
use crate::ops::{Blob, FaultScript, History, Op, Sig, TowerCfg, TxRef};
use crate::rng::{derive, Rng};

#[derive(Clone, Copy, Debug, PartialEq, Eq)]
pub enum Profile {
    /// Breach-heavy: appointments, disputes, verdict variety, short reorgs.
    Breach,
    /// Chain evolution around a few trackers: growth to +100, reorgs of every depth, re-confirmation variants.
    Chain,
    /// Subscription timing: tiny durations / grace, renewals, reorgs across the boundaries.
    Expiry,
    /// Authentication / isolation: signature mutations inside multi-user histories.
    Auth,
    /// Resubmission of appointments in every lifecycle state (C11).
    Resubmit,
    /// One or two trackers driven exactly to (and past) 100 confirmations, with a few requests around the completing block.
    Completion,
    /// C15: multi-user histories with small blobs whose requests go through the real HTTP front, most of them mutated.
    Http,
}

pub struct Gen {
    pub rng: Rng,
    pub uni: Universe,
    pub cfg: TowerCfg,
    pub n_users: u32,
    pub n_disputes: u32,
    pub ops: Vec<Op>,
    /// Shadow node: only used to decide what is minable.
    pub shadow: NodeState,
    pub registered: Vec<bool>,
    /// per dispute: blob lengths of penalties used in appointments (so that the mined penalty can match)
    pub used_penalties: Vec<Vec<(u32, usize)>>,
    pub filler_n: u32,
    pub sig_mut_pct: u64,
    pub small_blobs: bool,
}

const LENS: [usize; 9] = [0, 0, 300, 2047, 2048, 2049, 4096, 4097, 9000];

impl Gen {
    pub fn new(seed: u64, profile: Profile) -> Self {
        let mut rng = Rng::new(derive(seed, "gen", 0));
        let n_users = rng.range(1, 4) as u32;
        let n_disputes = rng.range(2, 6) as u32;
        let mut slots = *rng.pick(&[1u32, 2, 3, 5, 20, 10_000]);
        if (profile == Profile::Http && rng.chance(1, 8)) || (profile == Profile::Expiry && rng.chance(1, 10)) {
            // a second registration exhausts the slot counter (error code 65)
            slots = *rng.pick(&[u32::MAX, u32::MAX / 2 + 1]);
        }
        let (duration, grace) = match profile {
            Profile::Expiry => (*rng.pick(&[0u32, 1, 2, 3, 5, 10]), *rng.pick(&[0u32, 1, 2, 6])),
            Profile::Chain => (*rng.pick(&[50u32, 300, 4320]), *rng.pick(&[1u32, 6])),
            Profile::Completion => (4320, 6),
            _ => (*rng.pick(&[3u32, 10, 50, 4320, 4320]), *rng.pick(&[0u32, 1, 2, 6])),
        };
        let mut duration = duration;
        if profile == Profile::Expiry && rng.chance(1, 12) {
            // saturation sub-mode: expiries at / near the top of the u32 range
            duration = *rng.pick(&[u32::MAX, u32::MAX - 104, u32::MAX - 300, u32::MAX / 2 + 50]);
        }
        let cfg = TowerCfg {
            slots,
            duration,
            grace,
            txindex: rng.chance(1, 4),
            start_height: rng.range(101, 112) as u32,
        };
        let uni = Universe { seed };
        let mut shadow = NodeState::new(EventLog::new(), cfg.start_height, cfg.txindex);
        for d in 0..n_disputes {
            shadow.roots.insert(uni.fund_outpoint(d));
        }
        let sig_mut_pct = match profile {
            Profile::Auth => 35,
            Profile::Http => 12,
            _ => 3,
        };
        Gen {
            rng,
            uni,
            cfg,
            n_users,
            n_disputes,
            ops: vec![],
            shadow,
            registered: vec![false; n_users as usize],
            used_penalties: vec![vec![]; n_disputes as usize],
            filler_n: 0,
            sig_mut_pct,
            small_blobs: profile == Profile::Http,
        }
    }

    fn tx(&mut self, t: &TxRef) -> bitcoin::Transaction {
        if let TxRef::Filler(n) = t {
            let (tx, op) = self.uni.filler(*n);
            self.shadow.roots.insert(op);
            return tx;
        }
        match t {
            TxRef::Dispute(d) => self.uni.dispute(*d),
            TxRef::DisputeAlt(d) => self.uni.dispute_alt(*d),
            TxRef::Penalty { d, v, len } => self.uni.penalty(*d, *v, *len),
            TxRef::Filler(n) => self.uni.filler(*n).0,
        }
    }

    fn push_mine(&mut self, txs: Vec<TxRef>) {
        let mut inc = vec![];
        let mut kept = vec![];
        for t in txs {
            let tx = self.tx(&t);
            if self.shadow.minable(&tx, &inc) {
                inc.push(tx);
                kept.push(t);
            }
        }
        self.shadow.mine(inc);
        self.ops.push(Op::Mine { txs: kept });
    }

    fn sig(&mut self) -> Sig {
        if self.rng.below(100) < self.sig_mut_pct {
            match self.rng.below(7) {
                0 => Sig::OtherMessage(self.rng.below(4) as u32),
                1 => Sig::OtherUser(self.rng.below(self.n_users as u64 + 1) as u32),
                2 => Sig::Truncated(self.rng.below(104) as u32),
                3 => Sig::Flip(self.rng.below(104) as u32),
                4 => Sig::NonZbase32,
                5 => Sig::Empty,
                _ => Sig::OtherUser(self.rng.below(self.n_users as u64) as u32),
            }
        } else if self.rng.chance(1, 10) {
            Sig::GoodUpper
        } else {
            Sig::Good
        }
    }

    fn blob(&mut self, d: u32) -> Blob {
        match self.rng.weighted(&[70, 8, 4, 5, 5, 8]) {
            0 => {
                let mut len = *self.rng.pick(&LENS);
                if self.small_blobs && len > 600 && self.rng.chance(4, 5) {
                    // add_appointment bodies are capped at 2048 bytes: keep most blobs below ~900 bytes
                    len = *self.rng.pick(&[0usize, 100, 300, 600]);
                }
                let v = if self.rng.chance(1, 6) { 1 } else { 0 };
                self.used_penalties[d as usize].push((v, len));
                Blob::Valid { v, len }
            }
            1 => Blob::Garbage {
                len: *self.rng.pick(&[1usize, 16, 100, 2048, 2049, 5000]),
                salt: self.rng.below(1000) as u32,
            },
            2 => Blob::Empty,
            3 => Blob::BadTx {
                len: *self.rng.pick(&[1usize, 60, 300]),
            },
            4 => Blob::OtherKey {
                v: 0,
                len: 0,
                d2: self.rng.below(self.n_disputes as u64) as u32,
            },
            _ => {
                // re-use a penalty already used for this dispute (several users, same content)
                if let Some((v, len)) = self.used_penalties[d as usize].first().cloned() {
                    Blob::Valid { v, len }
                } else {
                    self.used_penalties[d as usize].push((0, 0));
                    Blob::Valid { v: 0, len: 0 }
                }
            }
        }
    }

    fn any_user(&mut self) -> u32 {
        // bias towards registered users
        let reg: Vec<u32> = (0..self.n_users).filter(|u| self.registered[*u as usize]).collect();
        if !reg.is_empty() && self.rng.chance(9, 10) {
            *self.rng.pick(&reg)
        } else {
            self.rng.below(self.n_users as u64) as u32
        }
    }

    fn op_register(&mut self) {
        let u = self.rng.below(self.n_users as u64) as u32;
        self.registered[u as usize] = true;
        self.ops.push(Op::Register { u });
    }

    fn op_add(&mut self, d: Option<u32>) {
        let u = self.any_user();
        let d = d.unwrap_or_else(|| self.rng.below(self.n_disputes as u64) as u32);
        let blob = self.blob(d);
        let sig = self.sig();
        self.ops.push(Op::Add {
            u,
            d,
            blob,
            tsd: *self.rng.pick(&[0u32, 42, 144, u32::MAX]),
            sig,
        });
    }

    fn penalty_ref(&mut self, d: u32) -> TxRef {
        let (v, len) = if self.used_penalties[d as usize].is_empty() || self.rng.chance(1, 8) {
            (if self.rng.chance(1, 2) { 1 } else { 0 }, 0)
        } else {
            let i = self.rng.below(self.used_penalties[d as usize].len() as u64) as usize;
            self.used_penalties[d as usize][i]
        };
        TxRef::Penalty { d, v, len }
    }

    fn filler(&mut self) -> TxRef {
        self.filler_n += 1;
        TxRef::Filler(self.filler_n)
    }

    fn op_breach(&mut self) {
        let d = self.rng.below(self.n_disputes as u64) as u32;
        // Optionally make sure somebody holds an appointment for it first.
        if self.rng.chance(2, 3) {
            self.op_add(Some(d));
            if self.rng.chance(1, 4) {
                self.op_add(Some(d));
            }
        }
        if self.rng.chance(1, 12) {
            let t = self.penalty_ref(d);
            self.ops.push(Op::PolicyInvalid(t));
        }
        if self.rng.chance(1, 25) {
            let t = self.penalty_ref(d);
            self.ops.push(Op::ForceVerdict {
                tx: t,
                kind: self.rng.below(2) as u32,
            });
        }
        let mut txs = vec![];
        if self.rng.chance(1, 3) {
            txs.push(self.filler());
        }
        let alt = self.rng.chance(1, 15);
        txs.push(if alt { TxRef::DisputeAlt(d) } else { TxRef::Dispute(d) });
        match self.rng.weighted(&[60, 12, 10, 8]) {
            0 => {}
            1 => {
                // penalty in the same block as the dispute
                let p = self.penalty_ref(d);
                txs.push(p);
            }
            2 => {
                // a second dispute in the same block
                let d2 = self.rng.below(self.n_disputes as u64) as u32;
                txs.push(TxRef::Dispute(d2));
            }
            _ => {
                // somebody else's penalty variant confirms right after
                self.push_mine(txs.clone());
                txs = vec![self.penalty_ref(d)];
            }
        }
        self.push_mine(txs);
        // lagging: sometimes more blocks before the tower polls
        let extra = self.rng.weighted(&[70, 15, 10, 5]);
        for _ in 0..extra {
            let mut t = vec![];
            if self.rng.chance(1, 3) {
                t.push(self.penalty_ref(d));
            }
            self.push_mine(t);
        }
        self.ops.push(Op::Poll);
        // late appointment for a dispute already in the cache
        if self.rng.chance(1, 3) {
            let k = self.rng.below(7);
            for _ in 0..k {
                self.push_mine(vec![]);
            }
            if k > 0 {
                self.ops.push(Op::Poll);
            }
            self.op_add(Some(d));
        }
    }

    fn op_advance(&mut self, max: u64) {
        let k = self.rng.range(1, max);
        let one_poll = self.rng.chance(1, 3);
        for _ in 0..k {
            let mut t = vec![];
            if self.rng.chance(1, 10) {
                let d = self.rng.below(self.n_disputes as u64) as u32;
                t.push(self.penalty_ref(d));
            }
            self.push_mine(t);
            if !one_poll {
                self.ops.push(Op::Poll);
            }
        }
        if one_poll {
            self.ops.push(Op::Poll);
        }
    }

    fn op_reorg(&mut self, max_depth: u64) {
        let depth = self.rng.range(1, max_depth) as u32;
        let extra = self.rng.range(1, 3) as usize;
        let mut branch: Vec<Vec<TxRef>> = vec![];
        // Which known transactions may re-appear on the new branch, and where.
        let policy = self.rng.below(4); // 0 same place-ish, 1 later, 2 never, 3 conflict
        for i in 0..(depth as usize + extra) {
            let mut txs = vec![];
            for d in 0..self.n_disputes {
                match policy {
                    0 if i == 0 => {
                        txs.push(TxRef::Dispute(d));
                        if self.rng.chance(1, 2) {
                            txs.push(self.penalty_ref(d));
                        }
                    }
                    1 if i == depth as usize => {
                        txs.push(TxRef::Dispute(d));
                        txs.push(self.penalty_ref(d));
                    }
                    3 if i == 0 && self.rng.chance(1, 2) => {
                        txs.push(TxRef::DisputeAlt(d));
                    }
                    3 if i == 1 => {
                        txs.push(TxRef::Dispute(d));
                        txs.push(TxRef::Penalty { d, v: 1, len: 0 });
                    }
                    _ => {}
                }
            }
            branch.push(txs);
        }
        // apply to the shadow node the same way the executor will
        {
            let height = self.shadow.height();
            let floor = self.cfg.start_height.saturating_sub(105).max(1);
            let depth_eff = depth.min(height.saturating_sub(floor)).max(1);
            let fork = height - depth_eff;
            self.shadow.active.truncate(fork as usize + 1);
            self.shadow.mine_rebuild_only();
            let mut b2 = branch.clone();
            while (b2.len() as u32) < depth_eff + 1 {
                b2.push(vec![]);
            }
            for txs in b2 {
                let mut inc = vec![];
                for t in txs.iter() {
                    let tx = self.tx(t);
                    if self.shadow.minable(&tx, &inc) {
                        inc.push(tx);
                    }
                }
                self.shadow.mine(inc);
            }
        }
        self.ops.push(Op::Reorg { depth, branch });
        if self.rng.chance(1, 6) {
            // a second reorg before the tower looks
            self.ops.push(Op::Reorg {
                depth: self.rng.range(1, 3) as u32,
                branch: vec![],
            });
            let height = self.shadow.height();
            let d2 = 3.min(height - 1);
            let _ = d2;
            // keep the shadow roughly in sync: rebuild lazily by replaying is overkill; executor filters anyway
        }
        self.ops.push(Op::Poll);
    }

    /// `preciousblock`: the node moves to an equal-work sibling of its tip (empty, or re-confirming / conflicting with what
    /// the old tip held); the tower polls (worse tip), is sometimes restarted while the fork is unresolved, and the fork is
    /// then resolved on top of the sibling (or, rarely, left open).
    fn op_precious(&mut self) {
        let mut txs = vec![];
        for d in 0..self.n_disputes {
            match self.rng.below(6) {
                0 => {
                    txs.push(TxRef::Dispute(d));
                    if self.rng.chance(1, 2) {
                        txs.push(self.penalty_ref(d));
                    }
                }
                1 => txs.push(TxRef::DisputeAlt(d)),
                2 => txs.push(self.penalty_ref(d)),
                _ => {}
            }
        }
        let floor = self.cfg.start_height.saturating_sub(105).max(1);
        if self.shadow.height() > floor + 1 {
            let resolved: Vec<bitcoin::Transaction> = txs.iter().map(|t| self.tx(t)).collect();
            self.shadow.precious_sibling(resolved);
        }
        self.ops.push(Op::Precious { txs });
        self.ops.push(Op::Poll);
        match self.rng.below(4) {
            0 => self.ops.push(Op::Restart),
            1 => {
                self.ops.push(Op::Restart);
                self.ops.push(Op::Poll);
            }
            _ => {}
        }
        if self.rng.chance(5, 6) {
            let k = self.rng.range(1, 2);
            for _ in 0..k {
                let mut t = vec![];
                if self.rng.chance(1, 3) {
                    let d = self.rng.below(self.n_disputes as u64) as u32;
                    t.push(self.penalty_ref(d));
                }
                self.push_mine(t);
            }
            self.ops.push(Op::Poll);
        }
    }

    fn op_misc(&mut self) {
        if self.rng.chance(1, 6) {
            return self.op_precious();
        }
        match self.rng.below(8) {
            0 => {
                let u = self.any_user();
                let d = self.rng.below(self.n_disputes as u64) as u32;
                let sig = self.sig();
                self.ops.push(Op::Get { u, d, sig });
            }
            1 => {
                let u = self.any_user();
                let sig = self.sig();
                self.ops.push(Op::SubInfo { u, sig });
            }
            2 => {
                let d = self.rng.below(self.n_disputes as u64) as u32;
                let t = self.penalty_ref(d);
                self.ops.push(Op::Evict(t));
            }
            3 => {
                self.ops.push(Op::WorseTip);
                self.ops.push(Op::Poll);
                if self.rng.chance(1, 3) {
                    // ... and the tower is restarted right after having seen the equal-work sibling
                    self.ops.push(Op::Restart);
                }
            }
            4 => self.ops.push(Op::RegisterBadId {
                kind: self.rng.below(5) as u32,
            }),
            5 => self.ops.push(Op::Restart),
            6 => self.ops.push(Op::Poll),
            _ => {
                let n = self.rng.range(1, 3);
                self.ops.push(Op::FetchFault {
                    nth: n as u32,
                    persistent: self.rng.chance(1, 2),
                });
            }
        }
    }
}

pub fn generate(property: &str, seed: u64, profile: Profile) -> History {
    let mut g = Gen::new(seed, profile);
    // always start with some registrations
    let n_reg = g.rng.range(1, g.n_users as u64);
    for _ in 0..n_reg {
        g.op_register();
    }
    let target_ops = match profile {
        Profile::Chain => g.rng.range(12, 40) as usize,
        _ => g.rng.range(6, 45) as usize,
    };
    match profile {
        Profile::Breach | Profile::Auth | Profile::Resubmit | Profile::Http => {
            // weights: register, add, breach, advance, reorg, misc
            let w = [
                g.rng.range(2, 10) as u32,
                g.rng.range(10, 30) as u32,
                g.rng.range(10, 30) as u32,
                g.rng.range(2, 15) as u32,
                g.rng.range(0, 10) as u32,
                g.rng.range(3, 15) as u32,
            ];
            while g.ops.len() < target_ops {
                match g.rng.weighted(&w) {
                    0 => g.op_register(),
                    1 => g.op_add(None),
                    2 => g.op_breach(),
                    3 => g.op_advance(8),
                    4 => g.op_reorg(4),
                    _ => g.op_misc(),
                }
                if profile == Profile::Resubmit && g.rng.chance(1, 2) {
                    // resubmit something that was submitted before
                    let adds: Vec<Op> = g.ops.iter().filter(|o| matches!(o, Op::Add { .. })).cloned().collect();
                    if !adds.is_empty() {
                        let op = g.rng.pick(&adds).clone();
                        g.ops.push(op);
                    }
                }
            }
        }
        Profile::Chain => {
            // a few trackers early
            let k = g.rng.range(1, 3);
            for _ in 0..k {
                g.op_breach();
            }
            while g.ops.len() < target_ops {
                match g.rng.weighted(&[30, 25, 10, 10, 5, 8]) {
                    0 => g.op_advance(12),
                    1 => {
                        let md = *g.rng.pick(&[2u64, 3, 8, 20, 60, 100, 104]);
                        g.op_reorg(md)
                    }
                    2 => g.op_breach(),
                    3 => {
                        // long growth in one go
                        let n = g.rng.range(20, 110);
                        let polls = g.rng.range(1, 4);
                        for i in 0..n {
                            g.push_mine(vec![]);
                            if i % (n / polls).max(1) == 0 {
                                g.ops.push(Op::Poll);
                            }
                        }
                        g.ops.push(Op::Poll);
                    }
                    4 => g.op_register(),
                    _ => g.op_misc(),
                }
            }
        }
        Profile::Completion => {
            let u = 0u32;
            g.registered[0] = true;
            g.ops.clear();
            g.ops.push(Op::Register { u });
            // enough slots for two appointments of up to 2 + 3 slots
            let mut granted = g.cfg.slots.max(1);
            while granted < 6 {
                g.ops.push(Op::Register { u });
                granted += g.cfg.slots.max(1);
            }
            let d = 0u32;
            let len = *g.rng.pick(&[0usize, 0, 2049]);
            g.used_penalties[0].push((0, len));
            g.ops.push(Op::Add { u, d, blob: Blob::Valid { v: 0, len }, tsd: 42, sig: Sig::Good });
            let second = g.n_users > 1 && g.rng.chance(1, 3);
            if second {
                g.registered[1] = true;
                g.ops.push(Op::Register { u: 1 });
                g.ops.push(Op::Add { u: 1, d, blob: Blob::Valid { v: 0, len }, tsd: 42, sig: Sig::Good });
            }
            // sometimes the same user holds a second appointment whose tracker completes in the very same block
            let twin = g.n_disputes > 1 && g.rng.chance(2, 5);
            let len2 = *g.rng.pick(&[0usize, 2049, 4097]);
            if twin {
                g.used_penalties[1].push((0, len2));
                g.ops.push(Op::Add { u, d: 1, blob: Blob::Valid { v: 0, len: len2 }, tsd: 42, sig: Sig::Good });
            }
            let mut disputes = vec![TxRef::Dispute(d)];
            let mut penalties = vec![TxRef::Penalty { d, v: 0, len }];
            if twin {
                disputes.push(TxRef::Dispute(1));
                penalties.push(TxRef::Penalty { d: 1, v: 0, len: len2 });
            }
            g.push_mine(disputes);
            g.ops.push(Op::Poll);
            let gap = g.rng.below(3);
            for _ in 0..gap {
                g.push_mine(vec![]);
            }
            g.push_mine(penalties);
            g.ops.push(Op::Poll);
            if g.rng.chance(1, 4) {
                // a shallow reorg above the confirming block on the way
                g.push_mine(vec![]);
                g.push_mine(vec![]);
                g.ops.push(Op::Poll);
                g.op_reorg(2);
            }
            // grow until the penalty has 99 confirmations, in a few polls
            let mut remaining = 99u32.saturating_sub(2);
            let polls = g.rng.range(1, 4) as u32;
            let chunk = (remaining / polls).max(1);
            while remaining > 0 {
                let n = chunk.min(remaining);
                for _ in 0..n {
                    g.push_mine(vec![]);
                }
                g.ops.push(Op::Poll);
                remaining -= n;
            }
            // the blocks around +100, one poll each or together
            let together = g.rng.chance(1, 3);
            for _ in 0..g.rng.range(3, 6) {
                g.push_mine(vec![]);
                if !together {
                    g.ops.push(Op::Poll);
                }
                if g.rng.chance(1, 4) {
                    g.ops.push(Op::Get { u, d, sig: Sig::Good });
                }
            }
            g.ops.push(Op::Poll);
            g.ops.push(Op::SubInfo { u, sig: Sig::Good });
            if g.rng.chance(1, 2) {
                g.op_add(Some(1));
            }
        }
        Profile::Expiry => {
            while g.ops.len() < target_ops {
                match g.rng.weighted(&[20, 20, 25, 10, 10, 10]) {
                    0 => g.op_register(),
                    1 => g.op_add(None),
                    2 => g.op_advance(4),
                    3 => g.op_reorg(3),
                    4 => g.op_breach(),
                    _ => g.op_misc(),
                }
            }
        }
    }
    if profile == Profile::Http {
        http_pass(&mut g);
    }
    // make sure the tower has seen everything at the end
    g.ops.push(Op::Poll);
    History {
        property: property.to_string(),
        seed,
        cfg: g.cfg.clone(),
        ops: g.ops,
        faults: FaultScript::default(),
    }
}

/// Routes the API operations of a history through the HTTP front: most keep their meaning (possibly re-encoded), and
/// around them mutated copies that must be refused are inserted, plus pings and windows in which the tower has flagged
/// the node unreachable (every request must then be answered 503 or refused for its form).
fn http_pass(g: &mut Gen) {
    use crate::http::HttpMut;
    let ops = std::mem::take(&mut g.ops);
    let mut out: Vec<Op> = vec![];
    let is_api = |o: &Op| matches!(o, Op::Register { .. } | Op::RegisterBadId { .. } | Op::Add { .. } | Op::Get { .. } | Op::SubInfo { .. });
    let mut down = false;
    let mut seen_api: Vec<Op> = vec![];
    for op in ops {
        // Restarts and block-download faults belong to other properties' histories.
        if matches!(op, Op::Restart | Op::FetchFault { .. }) {
            continue;
        }
        if is_api(&op) {
            // a refused sibling before
            if g.rng.chance(2, 5) {
                let mut m = HttpMut::gen(&mut g.rng);
                while m.preserving() {
                    m = HttpMut::gen(&mut g.rng);
                }
                out.push(Op::Http { base: Box::new(op.clone()), m });
            }
            let keep_plain = g.rng.chance(1, 5);
            if keep_plain {
                out.push(op.clone());
            } else {
                let mut m = HttpMut::gen(&mut g.rng);
                // the history's own operation keeps its meaning (what it sets up is needed later)
                while !m.preserving() {
                    m = HttpMut::gen(&mut g.rng);
                }
                out.push(Op::Http { base: Box::new(op.clone()), m });
            }
            seen_api.push(op.clone());
            // a refused or replayed sibling after (state: the appointment now exists / slots were consumed)
            if g.rng.chance(1, 3) {
                let m = HttpMut::gen(&mut g.rng);
                let base = if g.rng.chance(1, 3) { g.rng.pick(&seen_api).clone() } else { op.clone() };
                out.push(Op::Http { base: Box::new(base), m });
            }
        } else {
            out.push(op.clone());
        }
        if g.rng.chance(1, 25) {
            let m = if g.rng.chance(1, 2) { HttpMut::Plain } else { HttpMut::gen(&mut g.rng) };
            out.push(Op::Http { base: Box::new(Op::Ping), m });
        }
        // outage windows: the node goes away and the tower notices at its next poll
        if !down && g.rng.chance(1, 30) {
            out.push(Op::NodeDown);
            out.push(Op::Poll);
            down = true;
        } else if down && g.rng.chance(1, 4) {
            out.push(Op::NodeUp);
            out.push(Op::Poll);
            down = false;
        }
    }
    if down {
        out.push(Op::NodeUp);
        out.push(Op::Poll);
    }
    g.ops = out;
}
