//! Delta-debugging minimisation of a failing history: drop operations (chunks, then singles), then shrink
//! arguments, keeping a candidate only while the *same violation signature* reproduces.

use crate::check::{run_in_thread, signature};
use crate::ops::{Blob, History, Op, Sig};

fn reproduces(h: &History, property: &str, sig: &str) -> bool {
    let res = run_in_thread(h);
    // Same rule as the batch: the first violation of the property must be the one we are minimising.
    res.found
        .iter()
        .find(|f| f.v.property == property)
        .map(|f| signature(property, f) == sig)
        .unwrap_or(false)
}

pub fn minimise(orig: &History, property: &str, sig: &str, budget: usize) -> History {
    let mut best = orig.clone();
    let mut used = 0usize;
    // Cut everything after the last op that matters: try prefixes first (cheap and very effective).
    let mut lo = 0usize;
    let mut hi = best.ops.len();
    while lo < hi && used < budget {
        let mid = (lo + hi) / 2;
        let mut c = best.clone();
        c.ops.truncate(mid);
        used += 1;
        if reproduces(&c, property, sig) {
            hi = mid;
        } else {
            lo = mid + 1;
        }
    }
    if hi < best.ops.len() {
        let mut c = best.clone();
        c.ops.truncate(hi);
        used += 1;
        if reproduces(&c, property, sig) {
            best = c;
        }
    }
    // ddmin over the remaining ops
    let mut chunk = (best.ops.len() / 2).max(1);
    while chunk >= 1 && used < budget {
        let mut i = 0;
        let mut progress = false;
        while i < best.ops.len() && used < budget {
            let end = (i + chunk).min(best.ops.len());
            let mut c = best.clone();
            c.ops.drain(i..end);
            used += 1;
            if !c.ops.is_empty() && reproduces(&c, property, sig) {
                best = c;
                progress = true;
            } else {
                i = end;
            }
        }
        if chunk == 1 && !progress {
            break;
        }
        chunk = if progress { chunk } else { chunk / 2 };
        if chunk == 0 {
            break;
        }
    }
    // argument shrinking: simpler blobs, good signatures, shallower reorgs
    let mut i = 0;
    while i < best.ops.len() && used < budget {
        let mut cands: Vec<Op> = vec![];
        match &best.ops[i] {
            Op::Add { u, d, blob, tsd, sig: s } => {
                if *s != Sig::Good {
                    cands.push(Op::Add { u: *u, d: *d, blob: blob.clone(), tsd: *tsd, sig: Sig::Good });
                }
                if let Blob::Valid { v, len } = blob {
                    if *len != 0 {
                        cands.push(Op::Add { u: *u, d: *d, blob: Blob::Valid { v: *v, len: 0 }, tsd: *tsd, sig: s.clone() });
                    }
                }
                if *tsd != 42 {
                    cands.push(Op::Add { u: *u, d: *d, blob: blob.clone(), tsd: 42, sig: s.clone() });
                }
            }
            Op::Reorg { depth, branch } => {
                if *depth > 1 {
                    cands.push(Op::Reorg { depth: 1, branch: branch.clone() });
                }
                if !branch.is_empty() {
                    cands.push(Op::Reorg { depth: *depth, branch: vec![] });
                }
            }
            Op::Precious { txs } if !txs.is_empty() => {
                cands.push(Op::Precious { txs: vec![] });
            }
            Op::Mine { txs } if txs.len() > 1 => {
                for k in 0..txs.len() {
                    let mut t = txs.clone();
                    t.remove(k);
                    cands.push(Op::Mine { txs: t });
                }
            }
            _ => {}
        }
        for c in cands {
            if used >= budget {
                break;
            }
            let mut h = best.clone();
            h.ops[i] = c;
            used += 1;
            if reproduces(&h, property, sig) {
                best = h;
            }
        }
        i += 1;
    }
    best
}
