//! Glue between the harness-owned seams (node RPCs) and the two global callbacks (crash points, scheduler).

use std::sync::atomic::{AtomicBool, Ordering};
use std::sync::{Arc, RwLock};

type YieldCb = dyn Fn(&'static str) + Send + Sync;

static YIELD_ON: AtomicBool = AtomicBool::new(false);
static YIELD_CB: RwLock<Option<Arc<YieldCb>>> = RwLock::new(None);

pub fn set_rpc_yield(cb: Option<Arc<YieldCb>>) {
    let mut slot = YIELD_CB.write().unwrap_or_else(|e| e.into_inner());
    YIELD_ON.store(cb.is_some(), Ordering::SeqCst);
    *slot = cb;
}

thread_local! {
    pub static SUPPRESS_POINTS: std::cell::Cell<bool> = const { std::cell::Cell::new(false) };
}

/// Every call into the simulated node passes here first: it is a crash point and a scheduling point.
pub fn rpc_point(site: &'static str) {
    if std::thread::panicking() || SUPPRESS_POINTS.with(|c| c.get()) {
        return;
    }
    teos_common::verif::crash_point(site);
    if YIELD_ON.load(Ordering::Relaxed) {
        let cb = YIELD_CB.read().unwrap_or_else(|e| e.into_inner()).as_ref().cloned();
        if let Some(cb) = cb {
            cb(site)
        }
    }
}
