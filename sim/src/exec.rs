//! Sequential executor: runs one history against the real tower, feeds the reference model and collects violations.

use std::any::Any;
use std::collections::{BTreeMap, BTreeSet, HashMap};
use std::panic::{catch_unwind, AssertUnwindSafe};
use std::path::PathBuf;
use std::sync::atomic::{AtomicU64, Ordering};
use std::sync::{Arc, Mutex};

use bitcoin::consensus::serialize;
use bitcoin::hashes::Hash;
use bitcoin::Transaction;

use teos_common::appointment::{Appointment, Locator};
use teos_common::cryptography;
use teos_common::receipts::{AppointmentReceipt, RegistrationReceipt};
use teos_common::{TowerId, UserId};

use crate::events::{Event, EventLog};
use crate::model::{rpcs_of, slots_for, viol, Model, Outcome, Rec, RecState, Violation};
use crate::node::{FetchFault, SimNode, Universe, Verdict, BEST_OVERRIDE};
use crate::obs::{DbDump, DbReader};
use crate::ops::{Blob, History, Op, Sig, TxRef};
use crate::rng::Rng;
use crate::tower::{self, ApiErr, TowerCtx};

/// Payload of the unwinding that simulates a process kill.
pub struct CrashSignal;

#[derive(Clone, Debug)]
pub struct PanicInfo {
    pub location: String,
    pub message: String,
}

thread_local! {
    pub static LAST_PANIC: std::cell::RefCell<Option<PanicInfo>> = const { std::cell::RefCell::new(None) };
}

pub fn install_panic_hook() {
    static ONCE: std::sync::Once = std::sync::Once::new();
    ONCE.call_once(|| {
        std::panic::set_hook(Box::new(|info| {
            if info.payload().downcast_ref::<CrashSignal>().is_some() {
                return;
            }
            let msg = if let Some(s) = info.payload().downcast_ref::<&str>() {
                s.to_string()
            } else if let Some(s) = info.payload().downcast_ref::<String>() {
                s.clone()
            } else {
                "<non-string panic>".to_string()
            };
            let loc = info
                .location()
                .map(|l| format!("{}:{}", l.file(), l.line()))
                .unwrap_or_default();
            if std::env::var("SIM_DEBUG").is_ok() {
                eprintln!("[panic] {loc}: {msg}");
            }
            LAST_PANIC.with(|p| {
                // Keep the first panic of a cascade: that is the cause.
                let mut p = p.borrow_mut();
                if p.is_none() {
                    *p = Some(PanicInfo {
                        location: loc,
                        message: msg,
                    });
                }
            });
        }));
    });
}

#[derive(Clone, Debug)]
pub struct Found {
    pub op_index: usize,
    pub op_kind: String,
    pub v: Violation,
}

#[derive(Default, Clone, Debug)]
pub struct RunStats {
    pub ops_executed: usize,
    pub blocks_connected: u64,
    pub blocks_disconnected: u64,
    pub crash_points_passed: u64,
    pub rpcs: u64,
    pub crashes: u64,
    pub restarts: u64,
    pub probes: BTreeMap<String, u64>,
    pub faults_fired: BTreeMap<String, u64>,
    pub model_states: BTreeSet<u64>,
    pub nontrivial: bool,
    pub log_digest: u64,
    pub crash_points_first_boot: u64,
}

pub struct RunResult {
    pub found: Vec<Found>,
    pub stats: RunStats,
}

static RUN_COUNTER: AtomicU64 = AtomicU64::new(0);

/// Index of the operation the (single) running sequential simulation of this process is executing; read by the
/// real-time watchdog of `check::run_in_thread` when a simulation blocks for real.
pub static CUR_OP_GLOBAL: AtomicU64 = AtomicU64::new(0);

pub fn scratch_dir() -> PathBuf {
    let n = RUN_COUNTER.fetch_add(1, Ordering::SeqCst);
    let d = PathBuf::from(format!("/dev/shm/teos-sim-{}-{}", std::process::id(), n));
    let _ = std::fs::remove_dir_all(&d);
    std::fs::create_dir_all(&d).expect("create scratch dir");
    d
}

pub struct Run<'a> {
    pub hist: &'a History,
    pub node: SimNode,
    pub log: EventLog,
    pub model: Model,
    pub uni: Universe,
    pub found: Vec<Found>,
    pub stats: RunStats,
    pub cur_op: usize,
    sig_cache: HashMap<(u32, Vec<u8>), String>,
    pub crash_counter: Arc<AtomicU64>,
    pub in_flight: Option<Op>,
    pub last_db: Option<DbDump>,
    pub digest_acc: u64,
    pub op_ev0: usize,
    pub after_crash: bool,
    /// A crash interrupted the handling of this block: its effects are partly on disk. Durable-state comparisons are
    /// suspended until the tower has handled it again; RPCs issued before the crash count for it.
    pub partial_block: Option<(bitcoin::BlockHash, Vec<(&'static str, Option<bitcoin::Txid>, Verdict)>)>,
    http_depth: u32,
}

/// Removes the HTTP front of a tower when the tower goes away (also by unwinding).
struct FrontGuard;
impl Drop for FrontGuard {
    fn drop(&mut self) {
        crate::http::remove_front();
    }
}

pub enum Stop {
    Done,
    Restart,
}

fn fnv(acc: u64, data: &[u8]) -> u64 {
    let mut h = acc ^ 0xcbf29ce484222325;
    for b in data {
        h ^= *b as u64;
        h = h.wrapping_mul(0x100000001b3);
    }
    h
}

pub fn entity_counts(ops: &[Op]) -> (u32, u32) {
    let mut nu = 1;
    let mut nd = 1;
    let mut see_tx = |t: &TxRef, nd: &mut u32| match t {
        TxRef::Dispute(d) | TxRef::DisputeAlt(d) => *nd = (*nd).max(d + 1),
        TxRef::Penalty { d, .. } => *nd = (*nd).max(d + 1),
        TxRef::Filler(_) => {}
    };
    let flat: Vec<&Op> = ops
        .iter()
        .map(|o| match o {
            Op::Http { base, .. } => base.as_ref(),
            other => other,
        })
        .collect();
    for op in flat {
        match op {
            Op::Register { u } => nu = nu.max(u + 1),
            Op::Add { u, d, sig, blob, .. } => {
                nu = nu.max(u + 1);
                nd = nd.max(d + 1);
                if let Sig::OtherUser(u2) = sig {
                    nu = nu.max(u2 + 1);
                }
                if let Blob::OtherKey { d2, .. } = blob {
                    nd = nd.max(d2 + 1);
                }
            }
            Op::Get { u, d, sig } => {
                nu = nu.max(u + 1);
                nd = nd.max(d + 1);
                if let Sig::OtherUser(u2) = sig {
                    nu = nu.max(u2 + 1);
                }
            }
            Op::SubInfo { u, sig } => {
                nu = nu.max(u + 1);
                if let Sig::OtherUser(u2) = sig {
                    nu = nu.max(u2 + 1);
                }
            }
            Op::Mine { txs } | Op::Precious { txs } => txs.iter().for_each(|t| see_tx(t, &mut nd)),
            Op::Reorg { branch, .. } => branch.iter().flatten().for_each(|t| see_tx(t, &mut nd)),
            Op::Evict(t) | Op::PolicyInvalid(t) | Op::ForceVerdict { tx: t, .. } => see_tx(t, &mut nd),
            _ => {}
        }
    }
    (nu, nd)
}

impl<'a> Run<'a> {
    pub fn new(hist: &'a History) -> Self {
        let log = EventLog::new();
        let uni = Universe { seed: hist.seed };
        let node = SimNode::new(log.clone(), hist.cfg.start_height, hist.cfg.txindex);
        let (nu, nd) = entity_counts(&hist.ops);
        {
            let mut st = node.lock();
            for d in 0..nd {
                st.roots.insert(uni.fund_outpoint(d));
            }
        }
        let model = Model::new(hist.cfg.clone(), uni.clone(), nu, nd);
        Run {
            hist,
            node,
            log,
            model,
            uni,
            found: vec![],
            stats: RunStats::default(),
            cur_op: 0,
            sig_cache: HashMap::new(),
            crash_counter: Arc::new(AtomicU64::new(0)),
            in_flight: None,
            last_db: None,
            digest_acc: 0,
            op_ev0: 0,
            after_crash: false,
            partial_block: None,
            http_depth: 0,
        }
    }

    fn report(&mut self, vs: Vec<Violation>) {
        for mut v in vs {
            // Whatever goes wrong after an injected crash is a failure to recover from it.
            if self.after_crash && v.property != "C03" && v.property != "C11" {
                v.detail = format!("[{} {}] after crash+restart: {}", v.property, v.clause, v.detail);
                v.clause = after_crash_clause(v.property, v.clause);
                v.property = "C03";
            }
            let kind = self
                .hist
                .ops
                .get(self.cur_op)
                .map(|o| o.kind().to_string())
                .unwrap_or_else(|| "boot".into());
            self.found.push(Found {
                op_index: self.cur_op,
                op_kind: kind,
                v,
            });
        }
    }

    fn in_http(&self) -> bool {
        self.http_depth > 0
    }

    pub fn tx_of(&self, t: &TxRef) -> Transaction {
        if let TxRef::Filler(n) = t {
            // funding outputs of filler transactions exist from the start; registered lazily
            let (tx, op) = self.uni.filler(*n);
            self.node.lock().roots.insert(op);
            return tx;
        }
        match t {
            TxRef::Dispute(d) => self.uni.dispute(*d),
            TxRef::DisputeAlt(d) => self.uni.dispute_alt(*d),
            TxRef::Penalty { d, v, len } => self.uni.penalty(*d, *v, *len),
            TxRef::Filler(n) => self.uni.filler(*n).0,
        }
    }

    pub fn blob_of(&self, d: u32, blob: &Blob) -> (Vec<u8>, Option<Transaction>) {
        let dtxid = self.uni.dispute(d).compute_txid();
        match blob {
            Blob::Valid { v, len } => {
                let p = self.uni.penalty(d, *v, *len);
                (cryptography::encrypt(&p, &dtxid).unwrap(), Some(p))
            }
            Blob::Garbage { len, salt } => {
                let mut r = Rng::new(crate::rng::derive(self.uni.seed, "garbage", ((*salt as u64) << 32) | *len as u64));
                (r.bytes(*len), None)
            }
            Blob::Empty => (vec![], None),
            Blob::BadTx { len } => {
                // Valid AEAD under the dispute id, but the plaintext is not a transaction (consensus decoding fails).
                use bitcoin::hashes::sha256;
                use chacha20poly1305::aead::{Aead, NewAead};
                use chacha20poly1305::{ChaCha20Poly1305, Key, Nonce};
                let plain = vec![0xffu8; (*len).max(1)];
                let k = sha256::Hash::hash(dtxid.as_byte_array());
                let cipher = ChaCha20Poly1305::new(Key::from_slice(k.as_byte_array()));
                (cipher.encrypt(&Nonce::default(), plain.as_ref()).unwrap(), None)
            }
            Blob::OtherKey { v, len, d2 } => {
                let other = self.uni.dispute(*d2).compute_txid();
                let p = self.uni.penalty(d, *v, *len);
                if other == dtxid {
                    (cryptography::encrypt(&p, &dtxid).unwrap(), Some(p))
                } else {
                    (cryptography::encrypt(&p, &other).unwrap(), None)
                }
            }
        }
    }

    fn sign_cached(&mut self, u: u32, msg: &[u8]) -> String {
        let key = (u, msg.to_vec());
        if let Some(s) = self.sig_cache.get(&key) {
            return s.clone();
        }
        let s = cryptography::sign(msg, &self.uni.user_sk(u));
        self.sig_cache.insert(key, s.clone());
        s
    }

    /// Returns (signature string, effective user if the signature authenticates somebody the harness knows).
    fn make_sig(&mut self, u: u32, msg: &[u8], alt_msg: &[u8], sig: &Sig) -> (String, Option<u32>) {
        match sig {
            Sig::Good => (self.sign_cached(u, msg), Some(u)),
            Sig::GoodUpper => (self.sign_cached(u, msg).to_ascii_uppercase(), Some(u)),
            Sig::OtherMessage(_) => (self.sign_cached(u, alt_msg), None),
            Sig::OtherUser(u2) => (self.sign_cached(*u2, msg), Some(*u2)),
            Sig::Truncated(n) => {
                let s = self.sign_cached(u, msg);
                let n = (*n as usize) % s.len();
                (s[..n].to_string(), None)
            }
            Sig::Flip(i) => {
                let s = self.sign_cached(u, msg);
                let mut b = s.into_bytes();
                let i = (*i as usize) % b.len();
                b[i] = if b[i] == b'y' { b'b' } else { b'y' };
                (String::from_utf8(b).unwrap(), None)
            }
            Sig::NonZbase32 => {
                let s = self.sign_cached(u, msg);
                let mut b = s.into_bytes();
                b[0] = b'0';
                b[3] = b'l';
                b[7] = b'!';
                (String::from_utf8(b).unwrap(), None)
            }
            Sig::Empty => (String::new(), None),
        }
    }

    fn db(&mut self, ctx: &TowerCtx) -> DbDump {
        DbReader::open(&ctx.db_path).dump()
    }

    // -----------------------------------------------------------------------------------------

    /// Processes the chain events logged since `from` (a poll, or the boot backlog poll).
    fn process_chain_events(&mut self, events: &[Event]) {
        let mut i = 0;
        while i < events.len() {
            match &events[i] {
                Event::DisconnectStart { hash, height } => {
                    // find matching end
                    let mut db = None;
                    let mut idx = None;
                    let mut j = i + 1;
                    let mut ended = false;
                    while j < events.len() {
                        if let Event::DisconnectEnd { hash: h2, db: d, idx: x, .. } = &events[j] {
                            if h2 == hash {
                                db = d.clone();
                                idx = x.clone();
                                ended = true;
                                break;
                            }
                        }
                        j += 1;
                    }
                    if !ended {
                        return;
                    }
                    if self.partial_block.is_some() {
                        db = None;
                    }
                    let node = self.node.lock();
                    let mut vs = self.model.on_disconnect(&node, *hash, *height, db.as_deref());
                    if let Some(x) = idx.as_deref() {
                        vs.extend(self.model.check_indexes(&node, x, &format!("after disconnecting height {height}")));
                    }
                    drop(node);
                    self.stats.blocks_disconnected += 1;
                    self.report(vs);
                    i = j.min(events.len() - 1) + 1;
                }
                Event::BlockStart { hash, height, .. } => {
                    let mut db = None;
                    let mut idx = None;
                    let mut j = i + 1;
                    let mut ended = false;
                    while j < events.len() {
                        if let Event::BlockEnd { hash: h2, db: d, idx: x, .. } = &events[j] {
                            if h2 == hash {
                                db = d.clone();
                                idx = x.clone();
                                ended = true;
                                break;
                            }
                        }
                        j += 1;
                    }
                    if !ended {
                        // The block's handling did not finish (crash): its effects are partial; it is processed again after
                        // the restart.
                        self.model.probe("crash_mid_block");
                        self.partial_block = Some((*hash, rpcs_of(&events[i..])));
                        return;
                    }
                    let upto = j.min(events.len());
                    let mut rpcs = rpcs_of(&events[i..upto]);
                    if let Some((pb, carried)) = self.partial_block.clone() {
                        if pb == *hash {
                            // what the node was asked before the crash still counts for this block
                            let mut all = carried;
                            all.extend(rpcs);
                            rpcs = all;
                            self.partial_block = None;
                            self.model.probe("partial_block_reprocessed");
                        } else {
                            db = None;
                        }
                    }
                    let node = self.node.lock();
                    let mut vs = self.model.on_connect(&node, *hash, *height, &rpcs, db.as_deref());
                    if let Some(x) = idx.as_deref() {
                        vs.extend(self.model.check_indexes(&node, x, &format!("after connecting height {height}")));
                    }
                    drop(node);
                    self.stats.blocks_connected += 1;
                    self.report(vs);
                    i = upto + 1;
                }
                _ => i += 1,
            }
        }
    }

    /// Full comparison after an operation: durable state, conservation, and the API view of what changed.
    fn observe(&mut self, ctx: &TowerCtx, touched_users: &BTreeSet<u32>, touched_recs: &BTreeSet<(u32, u32)>, full: bool) {
        let db = self.db(ctx);
        let at = format!("after op #{} ({})", self.cur_op, self.hist.ops.get(self.cur_op).map(|o| o.kind()).unwrap_or("boot"));
        let node = self.node.lock();
        let mut vs = self.model.compare_db(&node, &db, &at, true);
        drop(node);
        vs.extend(self.model.check_conservation(&db, &at));
        self.report(vs);

        let reachable = *ctx.reachable.0.lock().unwrap();
        if reachable {
            let users: Vec<u32> = if full {
                (0..self.model.n_users).collect()
            } else {
                touched_users.iter().cloned().collect()
            };
            for u in users {
                self.observe_user(ctx, u, &db);
            }
            let recs: Vec<(u32, u32)> = if full {
                let mut v = vec![];
                for u in 0..self.model.n_users {
                    for d in 0..self.model.n_disputes {
                        v.push((u, d));
                    }
                }
                v
            } else {
                touched_recs.iter().cloned().collect()
            };
            for (u, d) in recs {
                self.observe_rec(ctx, u, d);
            }
            if full {
                let info = tower::api_tower_info(&ctx.api);
                let n_w = self.model.recs.values().filter(|r| r.state == RecState::Watched).count() as u32;
                let n_r = self.model.recs.values().filter(|r| r.state == RecState::Responded).count() as u32;
                if info.n_registered_users != self.model.users.len() as u32
                    || info.n_watcher_appointments != n_w
                    || info.n_responder_trackers != n_r
                {
                    self.report(vec![viol(
                        "C01",
                        "tower_info_counts",
                        format!(
                            "{at}: get_tower_info says users/appointments/trackers = {}/{}/{}, model {}/{}/{}",
                            info.n_registered_users,
                            info.n_watcher_appointments,
                            info.n_responder_trackers,
                            self.model.users.len(),
                            n_w,
                            n_r
                        ),
                    )]);
                }
                if Some(TowerId::from_slice(&info.tower_id).ok()) != Some(self.model.tower_id) {
                    self.report(vec![viol("C03", "tower_id_changed", format!("{at}: tower id changed"))]);
                }
                let all = tower::api_all_appointments(&ctx.api);
                if all.len() != self.model.recs.len() {
                    self.report(vec![viol(
                        "C01",
                        "get_all_appointments_count",
                        format!("{at}: get_all_appointments returns {} entries, model holds {}", all.len(), self.model.recs.len()),
                    )]);
                }
            }
        }
        // model state hash (distinct-states measure)
        let mut h = fnv(0, &self.model.h.to_le_bytes());
        for (u, m) in self.model.users.iter() {
            h = fnv(h, &u.to_le_bytes());
            h = fnv(h, &m.available.to_le_bytes());
            h = fnv(h, &(m.expiry.wrapping_sub(self.model.h)).to_le_bytes());
        }
        for (k, r) in self.model.recs.iter() {
            h = fnv(h, &k.0.to_le_bytes());
            h = fnv(h, &k.1.to_le_bytes());
            h = fnv(h, &[r.state.clone() as u8, r.conf.is_some() as u8, r.unspecified as u8]);
        }
        self.stats.model_states.insert(h);
        self.last_db = Some(db);
    }

    fn observe_user(&mut self, ctx: &TowerCtx, u: u32, db: &DbDump) {
        let pk = self.model.user_pk(u);
        let at = format!("after op #{}", self.cur_op);
        let priv_info = tower::api_get_user(&ctx.api, pk.clone());
        match (self.model.users.get(&u).cloned(), priv_info) {
            (None, Ok(_)) => self.report(vec![viol(
                "C09",
                "user_in_memory_unexpected",
                format!("{at}: private get_user knows user {u} which should be absent"),
            )]),
            (None, Err(_)) => {}
            (Some(_), Err(e)) => self.report(vec![viol(
                "C09",
                "user_in_memory_missing",
                format!("{at}: private get_user({u}) failed: {e:?}"),
            )]),
            (Some(m), Ok(info)) => {
                let row = db.users.iter().find(|r| r.user_id == pk);
                if let Some(row) = row {
                    if info.available_slots != row.available || info.subscription_expiry != row.expiry {
                        self.report(vec![viol(
                            "C07",
                            "memory_vs_disk",
                            format!(
                                "{at}: user {u}: in-memory (slots,expiry)=({},{}) but persisted ({},{})",
                                info.available_slots, info.subscription_expiry, row.available, row.expiry
                            ),
                        )]);
                    }
                }
                let expect: BTreeSet<Vec<u8>> = self
                    .model
                    .recs
                    .keys()
                    .filter(|k| k.0 == u)
                    .map(|k| self.model.uuid(k.0, k.1))
                    .collect();
                let got: BTreeSet<Vec<u8>> = info.appointments.iter().cloned().collect();
                if expect != got && !self.model.recs.iter().any(|(k, r)| k.0 == u && r.unspecified) {
                    self.report(vec![viol(
                        "C06",
                        "user_appointment_list",
                        format!("{at}: get_user({u}) lists {} appointments, model {}", got.len(), expect.len()),
                    )]);
                }
                // Public view
                let sig = self.sign_cached(u, b"get subscription info");
                let r = tower::api_subinfo(&ctx.api, sig);
                let usable = self.model.h < m.expiry;
                match r {
                    Ok(info) => {
                        if !usable {
                            self.report(vec![viol(
                                "C09",
                                "usable_after_expiry",
                                format!("{at}: get_subscription_info succeeded for user {u} at height {} with expiry {}", self.model.h, m.expiry),
                            )]);
                        } else {
                            if info.available_slots != m.available && !m.tainted {
                                self.report(vec![viol(
                                    "C07",
                                    "available_slots_reported",
                                    format!("{at}: user {u} told available_slots={} model={}", info.available_slots, m.available),
                                )]);
                            }
                            if info.subscription_expiry != m.expiry {
                                self.report(vec![viol(
                                    "C09",
                                    "expiry_reported",
                                    format!("{at}: user {u} told expiry={} model={}", info.subscription_expiry, m.expiry),
                                )]);
                            }
                            let got: BTreeSet<Vec<u8>> = info.locators.iter().cloned().collect();
                            let expect: BTreeSet<Vec<u8>> = self
                                .model
                                .recs
                                .keys()
                                .filter(|k| k.0 == u)
                                .map(|k| self.model.locator(k.1).to_vec())
                                .collect();
                            if got != expect && !self.model.recs.iter().any(|(k, r)| k.0 == u && r.unspecified) {
                                self.report(vec![viol(
                                    "C06",
                                    "subscription_locators",
                                    format!("{at}: user {u} is told {} locators, model {}", got.len(), expect.len()),
                                )]);
                            }
                        }
                    }
                    Err(e) => {
                        if usable {
                            self.report(vec![viol(
                                "C09",
                                "unusable_before_expiry",
                                format!("{at}: get_subscription_info failed for user {u} at height {} with expiry {}: {e:?}", self.model.h, m.expiry),
                            )]);
                        } else if e.code != tonic::Code::Unauthenticated
                            || e.msg != format!("Your subscription expired at {}", m.expiry)
                        {
                            self.report(vec![viol(
                                "C09",
                                "expired_error_text",
                                format!("{at}: expired user {u}: got {e:?}, expected 'Your subscription expired at {}'", m.expiry),
                            )]);
                        }
                    }
                }
            }
        }
    }

    fn observe_rec(&mut self, ctx: &TowerCtx, u: u32, d: u32) {
        if !self.model.usable(u) {
            return;
        }
        let loc = self.model.locator(d);
        let msg = format!("get appointment {loc}");
        let sig = self.sign_cached(u, msg.as_bytes());
        let r = tower::api_get(&ctx.api, loc.to_vec(), sig);
        let vs = self.check_get_reply(u, d, &r);
        self.report(vs);
    }

    fn check_get_reply(
        &mut self,
        u: u32,
        d: u32,
        r: &Result<teos_common::protos::GetAppointmentResponse, ApiErr>,
    ) -> Vec<Violation> {
        use teos_common::protos::appointment_data::AppointmentData as AD;
        let at = format!("op #{}", self.cur_op);
        let mut vs = vec![];
        let rec = self.model.recs.get(&(u, d)).cloned();
        if rec.as_ref().map(|r| r.unspecified).unwrap_or(false) {
            return vs;
        }
        match (rec, r) {
            (None, Err(e)) if e.code == tonic::Code::NotFound => {}
            (None, Ok(_)) if self.model.recs.keys().any(|(u2, d2)| *d2 == d && *u2 != u) => vs.push(viol(
                "C06",
                "other_users_data_revealed",
                format!("{at}: user {u} holds nothing for dispute {d} but get_appointment returned data (another user holds that locator)"),
            )),
            (None, other) => vs.push(viol(
                "C01",
                "get_absent_record",
                format!("{at}: get_appointment(user {u}, dispute {d}) should be not-found, got {}", short(other)),
            )),
            (Some(rec), Ok(resp)) => {
                let data = resp.appointment_data.as_ref().and_then(|x| x.appointment_data.as_ref());
                match (&rec.state, data) {
                    (RecState::Watched, Some(AD::Appointment(a))) => {
                        if resp.status != 1 {
                            vs.push(viol("C01", "get_status", format!("{at}: watched appointment reported with status {}", resp.status)));
                        }
                        if a.encrypted_blob != rec.blob || a.to_self_delay != rec.tsd || a.locator != self.model.locator(d).to_vec() {
                            vs.push(viol(
                                "C08",
                                "read_back_differs",
                                format!("{at}: get_appointment(user {u}, dispute {d}) does not return the version last accepted"),
                            ));
                        }
                    }
                    (RecState::Responded, Some(AD::Tracker(t))) => {
                        let p = rec.penalty.as_ref().unwrap();
                        let dt = self.uni.dispute(d);
                        if resp.status != 2
                            || t.penalty_rawtx != serialize(p)
                            || t.penalty_txid != p.compute_txid().to_raw_hash().to_byte_array().to_vec()
                            || t.dispute_txid != dt.compute_txid().to_raw_hash().to_byte_array().to_vec()
                        {
                            vs.push(viol(
                                "C01",
                                "responded_content",
                                format!("{at}: get_appointment(user {u}, dispute {d}) does not report exactly that dispute and penalty"),
                            ));
                        }
                    }
                    (RecState::Watched, Some(AD::Tracker(_)))
                        if self
                            .model
                            .recs
                            .iter()
                            .any(|((u2, d2), r2)| *d2 == d && *u2 != u && r2.state == RecState::Responded) =>
                    {
                        vs.push(viol(
                            "C06",
                            "other_users_tracker_revealed",
                            format!("{at}: user {u}'s appointment for dispute {d} is only being watched, but get_appointment returned a tracker (another user's response for the same locator)"),
                        ))
                    }
                    (RecState::Watched, _) => vs.push(viol(
                        "C02",
                        "responded_unjustified",
                        format!("{at}: (user {u}, dispute {d}) reported as responded but no breach justified it"),
                    )),
                    (RecState::Responded, _) => vs.push(viol(
                        "C01",
                        "not_reported_responded",
                        format!("{at}: (user {u}, dispute {d}) must be reported dispute_responded"),
                    )),
                }
            }
            (Some(rec), Err(e)) => vs.push(viol(
                if rec.state == RecState::Responded { "C04" } else { "C01" },
                "get_held_record",
                format!("{at}: get_appointment(user {u}, dispute {d}) in state {:?} failed: {e:?}", rec.state),
            )),
        }
        vs
    }

    // -----------------------------------------------------------------------------------------
    // Operations

    fn exec_register(&mut self, ctx: &TowerCtx, u: u32) {
        let pk = self.model.user_pk(u);
        let before = self.db(ctx).digest();
        let r = tower::api_register(&ctx.api, pk.clone());
        if crate::http::is_refused_sentinel(&r) {
            return;
        }
        let at = format!("op #{} register(user {u})", self.cur_op);
        let h = self.model.h;
        let cfg = self.model.cfg.clone();
        let mut vs = vec![];
        let reachable = *ctx.reachable.0.lock().unwrap();
        if !reachable {
            if !matches!(&r, Err(e) if e.code == tonic::Code::Unavailable) {
                vs.push(viol("C12", "not_unavailable", format!("{at}: node flagged unreachable but register answered {}", short(&r))));
            }
            self.report(vs);
            return;
        }
        // expectation
        let exp: Result<(u32, u32, u32), ()> = match self.model.users.get(&u) {
            Some(m) => match m.available.checked_add(cfg.slots) {
                None => Err(()),
                Some(a) => Ok((a, m.start, m.expiry.checked_add(cfg.duration).unwrap_or(u32::MAX))),
            },
            None => Ok((cfg.slots, h, h.saturating_add(cfg.duration))),
        };
        match (exp, &r) {
            (Err(()), Err(e)) if e.code == tonic::Code::ResourceExhausted => {
                self.model.probe("register_max_slots");
                if self.db(ctx).digest() != before {
                    vs.push(viol("C15", "refused_request_changed_state", format!("{at}: refused registration changed the database")));
                }
            }
            (Err(()), other) => vs.push(viol(
                "C07",
                "renewal_overflow",
                format!("{at}: renewal would exceed the slot limit, expected resource-exhausted, got {}", short(other)),
            )),
            (Ok((a, s, e)), Ok(resp)) => {
                if resp.available_slots != a {
                    vs.push(viol("C07", "register_slots", format!("{at}: told available_slots={} expected {a}", resp.available_slots)));
                }
                if resp.subscription_start != s || resp.subscription_expiry != e {
                    vs.push(viol(
                        "C09",
                        "register_heights",
                        format!(
                            "{at}: told (start,expiry)=({},{}) expected ({s},{e}) at height {h}",
                            resp.subscription_start, resp.subscription_expiry
                        ),
                    ));
                }
                if resp.user_id != pk {
                    vs.push(viol("C08", "register_user_id", format!("{at}: reply carries another user id")));
                }
                let receipt = RegistrationReceipt::with_signature(
                    UserId::from_slice(&pk).unwrap(),
                    resp.available_slots,
                    resp.subscription_start,
                    resp.subscription_expiry,
                    resp.subscription_signature.clone(),
                );
                if !receipt.verify(&self.model.tower_id.unwrap()) {
                    vs.push(viol("C08", "registration_receipt_signature", format!("{at}: receipt does not verify under the tower id")));
                }
                let renewed = self.model.users.contains_key(&u);
                let m = self.model.users.entry(u).or_insert(crate::model::MUser {
                    pk: pk.clone(),
                    available: 0,
                    start: s,
                    expiry: e,
                    granted: 0,
                    forfeited: 0,
                    tainted: false,
                });
                m.available = a;
                m.expiry = e;
                m.granted += cfg.slots as u64;
                self.model.probe(if renewed { "renewal" } else { "registration" });
            }
            (Ok(_), Err(e)) => vs.push(viol("C09", "register_failed", format!("{at}: registration refused: {e:?}"))),
        }
        self.report(vs);
    }

    #[allow(clippy::too_many_arguments)]
    fn exec_add(&mut self, ctx: &TowerCtx, u: u32, d: u32, blob: &Blob, tsd: u32, sig: &Sig) -> (BTreeSet<u32>, BTreeSet<(u32, u32)>) {
        let loc = self.model.locator(d);
        let (blob_bytes, penalty) = self.blob_of(d, blob);
        let app = Appointment::new(loc, blob_bytes.clone(), tsd);
        // The message a user signs, serialised by the harness itself (locator | encrypted blob | to_self_delay as 4
        // big-endian bytes), not by the code under test: the tower and its client share `Appointment::to_vec`, so a field
        // dropped from it would otherwise go unnoticed on both sides.
        // Users sign with the serialisation the code base ships (`Appointment::to_vec`, shared by tower and client) ...
        let msg = app.to_vec();
        let alt = match sig {
            // ... so a signature the same user made for ALMOST this appointment (another to_self_delay / one more blob
            // byte), produced the same way, must not authenticate this one
            Sig::OtherMessage(n) if n % 3 == 1 => Appointment::new(loc, blob_bytes.clone(), tsd.wrapping_add(1)).to_vec(),
            Sig::OtherMessage(n) if n % 3 == 2 => {
                let mut b = blob_bytes.clone();
                b.push(0x42);
                Appointment::new(loc, b, tsd).to_vec()
            }
            _ => format!("get appointment {loc}").into_bytes(),
        };
        // ... and that serialisation is the documented one (locator | blob | to_self_delay as 4 big-endian bytes)
        if msg != signed_appointment_message(&loc.to_vec(), &blob_bytes, tsd) {
            self.report(vec![viol(
                "C06",
                "signed_message_not_the_documented_one",
                format!("op #{}: the message signed for an appointment is not locator | encrypted_blob | to_self_delay", self.cur_op),
            )]);
        }
        let (sig_str, eff) = self.make_sig(u, &msg, &alt, sig);
        let before = self.db(ctx);
        let ev0 = self.log.len();
        let r = tower::api_add(&ctx.api, loc.to_vec(), blob_bytes.clone(), tsd, sig_str.clone());
        if crate::http::is_refused_sentinel(&r) {
            return (BTreeSet::new(), BTreeSet::new());
        }
        let events = self.log.since(ev0);
        let rpcs = rpcs_of(&events);
        self.stats.rpcs += rpcs.len() as u64;
        // What the node said now may be relied upon by the tower until the next block.
        let cached_before = self.model.recent_verdicts.clone();
        self.model.remember_verdicts(&rpcs);
        let _ = cached_before;
        let at = format!("op #{} add(user {u}, dispute {d}, {}B)", self.cur_op, blob_bytes.len());
        let mut vs = vec![];
        let mut tu = BTreeSet::new();
        let mut tr = BTreeSet::new();
        let reachable_before = rpcs.iter().all(|x| x.2 != Verdict::Transport);
        let _ = reachable_before;

        let unchanged = |run: &mut Run, ctx: &TowerCtx, vs: &mut Vec<Violation>, prop: &'static str| {
            let after = run.db(ctx);
            if after.digest() != before.digest() {
                vs.push(viol(prop, "refused_request_changed_state", format!("{at}: refused request changed the database")));
            }
        };

        let auth_msg = "Invalid signature or user does not have enough slots available";
        let eff_user = eff.filter(|e| self.model.users.contains_key(e));
        let Some(eu) = eff_user else {
            self.model.probe("add_auth_failure");
            if !matches!(&r, Err(e) if e.code == tonic::Code::Unauthenticated && e.msg == auth_msg) {
                vs.push(viol("C06", "add_not_refused", format!("{at}: signature {:?} must not authenticate, got {}", sig, short(&r))));
            }
            if !rpcs.is_empty() {
                vs.push(viol("C02", "rpc_for_refused_request", format!("{at}: refused request caused node RPCs")));
            }
            unchanged(self, ctx, &mut vs, "C06");
            self.report(vs);
            return (tu, tr);
        };
        tu.insert(eu);
        tr.insert((eu, d));
        let m = self.model.users.get(&eu).unwrap().clone();
        if self.model.h >= m.expiry {
            self.model.probe("add_expired");
            let want = format!("Your subscription expired at {}", m.expiry);
            if !matches!(&r, Err(e) if e.code == tonic::Code::Unauthenticated && e.msg == want) {
                vs.push(viol("C09", "add_after_expiry", format!("{at}: height {} expiry {}: expected '{want}', got {}", self.model.h, m.expiry, short(&r))));
            }
            unchanged(self, ctx, &mut vs, "C09");
            self.report(vs);
            return (tu, tr);
        }
        let existing = self.model.recs.get(&(eu, d)).cloned();
        if existing.as_ref().map(|x| x.unspecified).unwrap_or(false) {
            // Anything may happen to this record; adopt at the next comparison (but a crash is still a crash: C11).
            self.model.probe("add_on_unspecified_record");
            if let Some(mu) = self.model.users.get_mut(&eu) {
                mu.tainted = true;
            }
            self.report(vs);
            return (tu, tr);
        }
        if matches!(existing.as_ref().map(|x| &x.state), Some(RecState::Responded)) {
            self.model.probe("add_already_triggered");
            if !matches!(&r, Err(e) if e.code == tonic::Code::AlreadyExists) {
                vs.push(viol("C01", "add_already_responded", format!("{at}: appointment already responded, expected already-exists, got {}", short(&r))));
            }
            unchanged(self, ctx, &mut vs, "C15");
            self.report(vs);
            return (tu, tr);
        }
        let required = slots_for(blob_bytes.len()) as i64;
        let used = existing.as_ref().map(|x| slots_for(x.blob.len()) as i64).unwrap_or(0);
        let diff = required - used;
        if diff > m.available as i64 {
            self.model.probe("add_not_enough_slots");
            if !matches!(&r, Err(e) if e.code == tonic::Code::Unauthenticated && e.msg == auth_msg) {
                vs.push(viol("C07", "accepted_beyond_balance", format!("{at}: needs {diff} slots, has {}: expected refusal, got {}", m.available, short(&r))));
                // adopt: let compare_db sort it out
                if let Some(mu) = self.model.users.get_mut(&eu) {
                    mu.tainted = true;
                }
                if r.is_ok() {
                    self.model.recs.insert(
                        (eu, d),
                        Rec {
                            u: eu,
                            d,
                            blob: blob_bytes.clone(),
                            tsd,
                            sig: sig_str.clone(),
                            start_block: self.model.h,
                            state: RecState::Watched,
                            penalty: penalty.clone(),
                            unspecified: true,
                            adopt_once: false,
                            conf: None,
                            needs_reannounce: false,
                            blocks_since_send: 0,
                            disconnect_seen: false,
                        },
                    );
                }
            }
            unchanged(self, ctx, &mut vs, "C07");
            self.report(vs);
            return (tu, tr);
        }
        // Accepted.
        let new_available = (m.available as i64 - diff) as u32;
        let resp = match &r {
            Ok(resp) => resp.clone(),
            Err(e) => {
                if e.msg.starts_with("Your subscription expired") {
                    // C09: usable exactly while the height is below the expiry
                    vs.push(viol(
                        "C09",
                        "add_refused_as_expired_before_expiry",
                        format!("{at}: height {} is below the expiry {} but the request was refused: {e:?}", self.model.h, m.expiry),
                    ));
                } else {
                    vs.push(viol("C07", "valid_request_refused", format!("{at}: valid request (needs {diff}, has {}) refused: {e:?}", m.available)));
                }
                self.report(vs);
                return (tu, tr);
            }
        };
        if existing.is_some() {
            self.model.probe("appointment_update");
            if diff < 0 {
                self.model.probe("update_shrinks");
            }
        }
        if blob_bytes.is_empty() {
            self.model.probe("empty_blob_accepted");
        }
        if blob_bytes.len() > 2048 {
            self.model.probe("multi_slot_blob");
        }
        if resp.available_slots != new_available {
            vs.push(viol(
                "C07",
                "add_slots_reported",
                format!("{at}: told available_slots={} expected {new_available} (had {}, charge {diff})", resp.available_slots, m.available),
            ));
        }
        if resp.subscription_expiry != m.expiry {
            vs.push(viol("C09", "add_expiry_reported", format!("{at}: told expiry {} expected {}", resp.subscription_expiry, m.expiry)));
        }
        if resp.locator != loc.to_vec() {
            vs.push(viol("C08", "add_locator", format!("{at}: reply carries another locator")));
        }
        let h = self.model.h;
        if resp.start_block != h {
            vs.push(viol("C08", "start_block", format!("{at}: receipt start_block={} but tower height is {h}", resp.start_block)));
        }
        let receipt = AppointmentReceipt::with_signature(sig_str.clone(), resp.start_block, resp.signature.clone());
        if !receipt.verify(&self.model.tower_id.unwrap()) {
            vs.push(viol("C08", "appointment_receipt_signature", format!("{at}: receipt does not verify under the tower id")));
        }
        self.model.users.get_mut(&eu).unwrap().available = new_available;

        let mut rec = Rec {
            u: eu,
            d,
            blob: blob_bytes.clone(),
            tsd,
            sig: sig_str.clone(),
            start_block: h,
            state: RecState::Watched,
            penalty: penalty.clone(),
            unspecified: false,
            adopt_once: false,
            conf: None,
            needs_reannounce: false,
            blocks_since_send: 0,
            disconnect_seen: false,
        };
        let dtxid = self.uni.dispute(d).compute_txid();
        let node = self.node.lock();
        let triggered = self.model.in_cache(&node, &dtxid);
        vs.extend(self.model.check_justified(&node, &rpcs, Some(&rec), false));
        if !triggered {
            if !rpcs.is_empty() {
                // sends are judged by check_justified; lookups are harmless
            }
            drop(node);
            self.model.recs.insert((eu, d), rec);
        } else {
            self.model.probe("add_triggered_in_cache");
            let depth = self.model.h - self.model.height_in_shown(&node, &dtxid).unwrap_or(self.model.h);
            match depth {
                0 => self.model.probe("trigger_in_cache_newest_block"),
                5 => self.model.probe("trigger_in_cache_6th_block"),
                _ => {}
            }
            if existing.is_some() {
                // Watched record whose dispute sits in the cache: only reachable through an unspecified corner.
                rec.unspecified = true;
                drop(node);
                self.model.recs.insert((eu, d), rec);
                self.model.users.get_mut(&eu).unwrap().tainted = true;
            } else {
                match &penalty {
                    None => {
                        drop(node);
                        self.model.probe("triggered_invalid_blob");
                        self.model.users.get_mut(&eu).unwrap().forfeited += required as u64;
                    }
                    Some(p) => {
                        let outcome = self.model.breach_outcome(&node, p, &rpcs, false);
                        match outcome {
                            Ok(Outcome::Responded) => {
                                let ptxid = p.compute_txid();
                                // (a penalty the node accepted earlier in this block interval and has evicted since has
                                // been given to the node: the tower may rely on that answer until the next block)
                                let given_this_interval = self.model.recent_verdicts.get(&ptxid) == Some(&Verdict::Ok);
                                if !node.has_tx(&ptxid) && !given_this_interval {
                                    vs.push(viol(
                                        "C02",
                                        "responded_without_node_having_penalty",
                                        format!("{at}: responded but node does not have {ptxid}"),
                                    ));
                                }
                                rec.state = RecState::Responded;
                                rec.blocks_since_send = self.model.h;
                                rec.conf = self.model.in_index(&node, &ptxid);
                                drop(node);
                                self.model.recs.insert((eu, d), rec);
                            }
                            Ok(Outcome::Dropped) => {
                                drop(node);
                                self.model.probe("triggered_rejected_by_node");
                                self.model.users.get_mut(&eu).unwrap().forfeited += required as u64;
                            }
                            Ok(Outcome::Unspecified) => {
                                drop(node);
                                self.model.probe("triggered_penalty_already_in_chain");
                                rec.unspecified = true;
                                self.model.recs.insert((eu, d), rec);
                                self.model.users.get_mut(&eu).unwrap().tainted = true;
                            }
                            Err(why) => {
                                drop(node);
                                vs.push(viol("C01", "breach_unanswered", format!("{at}: dispute already confirmed {depth} blocks ago: {why}")));
                                // ... and the user holds a receipt for it (this is the accepted branch): a receipt is issued
                                // only for what the tower stored, responded to, or dropped for an undecryptable blob / a
                                // refused penalty -- none of which applies to a blob that decrypts and a penalty never sent
                                let held = {
                                    let db = self.db(ctx);
                                    let uuid = self.model.uuid(eu, d);
                                    db.appointments.iter().any(|a| a.uuid == uuid)
                                };
                                if !held {
                                    vs.push(viol(
                                        "C08",
                                        "receipt_for_appointment_not_held",
                                        format!("{at}: a receipt was returned, the blob decrypts and the penalty was never submitted, but the appointment is neither stored nor responded to"),
                                    ));
                                }
                                rec.unspecified = true;
                                self.model.recs.insert((eu, d), rec);
                            }
                        }
                    }
                }
            }
        }
        self.report(vs);
        (tu, tr)
    }

    fn exec_get(&mut self, ctx: &TowerCtx, u: u32, d: u32, sig: &Sig) {
        let loc = self.model.locator(d);
        let msg = format!("get appointment {loc}").into_bytes();
        let alt = b"get subscription info".to_vec();
        let (sig_str, eff) = self.make_sig(u, &msg, &alt, sig);
        let before = self.db(ctx).digest();
        let r = tower::api_get(&ctx.api, loc.to_vec(), sig_str);
        if crate::http::is_refused_sentinel(&r) {
            return;
        }
        let at = format!("op #{} get(user {u}, dispute {d})", self.cur_op);
        let mut vs = vec![];
        let eff_user = eff.filter(|e| self.model.users.contains_key(e));
        match eff_user {
            None => {
                self.model.probe("get_auth_failure");
                if !matches!(&r, Err(e) if e.code == tonic::Code::Unauthenticated && e.msg == "User cannot be authenticated") {
                    vs.push(viol("C06", "get_not_refused", format!("{at}: signature {:?} must not authenticate, got {}", sig, short(&r))));
                }
            }
            Some(eu) => {
                let m = self.model.users.get(&eu).unwrap().clone();
                if self.model.h >= m.expiry {
                    let want = format!("Your subscription expired at {}", m.expiry);
                    if !matches!(&r, Err(e) if e.code == tonic::Code::Unauthenticated && e.msg == want) {
                        vs.push(viol("C09", "get_after_expiry", format!("{at}: expected '{want}', got {}", short(&r))));
                    }
                } else if matches!(&r, Err(e) if e.msg.starts_with("Your subscription expired")) {
                    vs.push(viol(
                        "C09",
                        "get_refused_as_expired_before_expiry",
                        format!("{at}: height {} is below the expiry {} but the request was refused: {}", self.model.h, m.expiry, short(&r)),
                    ));
                } else {
                    vs.extend(self.check_get_reply(eu, d, &r));
                }
            }
        }
        if self.db(ctx).digest() != before {
            vs.push(viol("C06", "read_changed_state", format!("{at}: a read request changed the database")));
        }
        self.report(vs);
    }

    fn exec_subinfo(&mut self, ctx: &TowerCtx, u: u32, sig: &Sig) {
        let msg = b"get subscription info".to_vec();
        let alt = format!("get appointment {}", self.model.locator(0)).into_bytes();
        let (sig_str, eff) = self.make_sig(u, &msg, &alt, sig);
        let before = self.db(ctx).digest();
        let r = tower::api_subinfo(&ctx.api, sig_str);
        if crate::http::is_refused_sentinel(&r) {
            return;
        }
        let at = format!("op #{} subinfo(user {u})", self.cur_op);
        let mut vs = vec![];
        let eff_user = eff.filter(|e| self.model.users.contains_key(e));
        match eff_user {
            None => {
                self.model.probe("subinfo_auth_failure");
                if !matches!(&r, Err(e) if e.code == tonic::Code::Unauthenticated && e.msg == "User not found. Have you registered?") {
                    vs.push(viol("C06", "subinfo_not_refused", format!("{at}: signature {:?} must not authenticate, got {}", sig, short(&r))));
                }
            }
            Some(eu) => {
                let m = self.model.users.get(&eu).unwrap().clone();
                if self.model.h >= m.expiry {
                    let want = format!("Your subscription expired at {}", m.expiry);
                    if !matches!(&r, Err(e) if e.code == tonic::Code::Unauthenticated && e.msg == want) {
                        vs.push(viol("C09", "subinfo_after_expiry", format!("{at}: expected '{want}', got {}", short(&r))));
                    }
                } else if matches!(&r, Err(e) if e.msg.starts_with("Your subscription expired")) {
                    vs.push(viol(
                        "C09",
                        "subinfo_refused_as_expired_before_expiry",
                        format!("{at}: height {} is below the expiry {} but the request was refused: {}", self.model.h, m.expiry, short(&r)),
                    ));
                } else {
                    match &r {
                        Ok(info) => {
                            if info.available_slots != m.available && !m.tainted {
                                vs.push(viol("C07", "available_slots_reported", format!("{at}: told {} model {}", info.available_slots, m.available)));
                            }
                            if info.subscription_expiry != m.expiry {
                                vs.push(viol("C09", "expiry_reported", format!("{at}: told {} model {}", info.subscription_expiry, m.expiry)));
                            }
                        }
                        Err(e) => vs.push(viol("C09", "subinfo_failed", format!("{at}: {e:?}"))),
                    }
                }
            }
        }
        if self.db(ctx).digest() != before {
            vs.push(viol("C06", "read_changed_state", format!("{at}: a read request changed the database")));
        }
        self.report(vs);
    }

    fn exec_poll(&mut self, ctx: &mut TowerCtx) {
        let ev0 = self.log.len();
        (ctx.poll)();
        let events = self.log.since(ev0);
        self.stats.rpcs += rpcs_of(&events).len() as u64;
        let n_conn = events.iter().filter(|e| matches!(e, Event::BlockStart { .. })).count();
        if n_conn > 1 {
            self.model.probe("multi_block_poll");
        }
        self.process_chain_events(&events);
        // C03 mechanism: last known block only after the poll that delivered it.
        let db = self.db(ctx);
        let want = self.model.tip().to_byte_array().to_vec();
        let node_tip = self.node.lock().tip();
        if node_tip == self.model.tip() {
            if db.last_known_block.as_ref() != Some(&want) && n_conn > 0 {
                self.report(vec![viol(
                    "C03",
                    "last_known_block_not_persisted",
                    format!("op #{}: poll finished at {} but last_known_block is {:?}", self.cur_op, self.model.tip(), db.last_known_block.as_ref().map(hex::encode)),
                )]);
            }
        }
    }

    pub fn node_op(&mut self, op: &Op) {
        match op {
            Op::Mine { txs } => {
                let resolved: Vec<Transaction> = txs.iter().map(|t| self.tx_of(t)).collect();
                let mut st = self.node.lock();
                let mut inc: Vec<Transaction> = vec![];
                for tx in resolved {
                    if st.minable(&tx, &inc) {
                        inc.push(tx);
                    }
                }
                st.mine(inc);
            }
            Op::Reorg { depth, branch } => {
                let resolved: Vec<Vec<Transaction>> =
                    branch.iter().map(|b| b.iter().map(|t| self.tx_of(t)).collect()).collect();
                let mut st = self.node.lock();
                let height = st.height();
                let floor = self.hist.cfg.start_height.saturating_sub(105).max(1);
                let depth = (*depth).min(height.saturating_sub(floor)).max(1);
                let fork = height - depth;
                // Build the branch incrementally so that validity is judged on the new chain.
                let old_height = height;
                let mut returned: Vec<Transaction> = Vec::new();
                for h in (fork + 1)..=old_height {
                    let b = st.block_at(h).clone();
                    returned.extend(b.txdata.into_iter().skip(1));
                }
                st.active.truncate(fork as usize + 1);
                // `mine` rebuilds derived state.
                let old_mempool = std::mem::take(&mut st.mempool);
                let mut n = 0u32;
                let want = depth + 1;
                let mut branch = resolved;
                while (branch.len() as u32) < want {
                    branch.push(vec![]);
                }
                // first rebuild so that minable() sees the truncated chain
                st.mine_rebuild_only();
                for txs in branch {
                    let mut inc: Vec<Transaction> = vec![];
                    for tx in txs.into_iter() {
                        if st.minable(&tx, &inc) {
                            inc.push(tx);
                        }
                    }
                    st.mine(inc);
                    n += 1;
                }
                let _ = n;
                let mut cands = returned;
                cands.extend(old_mempool);
                st.readmit(cands);
                *st.fired.entry("F5_reorg").or_insert(0) += 1;
            }
            Op::Evict(t) => {
                let txid = self.tx_of(t).compute_txid();
                self.node.lock().evict(&txid);
            }
            Op::PolicyInvalid(t) => {
                let txid = self.tx_of(t).compute_txid();
                let mut st = self.node.lock();
                if !st.has_tx(&txid) {
                    st.policy_invalid.insert(txid);
                    *st.fired.entry("F2_policy_mark").or_insert(0) += 1;
                }
            }
            Op::ForceVerdict { tx, kind } => {
                let txid = self.tx_of(tx).compute_txid();
                let v = if *kind == 0 { Verdict::Err(-1) } else { Verdict::Garbage };
                self.node.lock().faults.forced.insert(txid, v);
            }
            Op::WorseTip => {
                let bh = self.node.lock().side_block_hash();
                BEST_OVERRIDE.with(|c| c.set(Some(bh)));
            }
            Op::Precious { txs } => {
                let resolved: Vec<Transaction> = txs.iter().map(|t| self.tx_of(t)).collect();
                let mut st = self.node.lock();
                let floor = self.hist.cfg.start_height.saturating_sub(105).max(1);
                if st.height() > floor + 1 {
                    st.precious_sibling(resolved);
                }
            }
            Op::NodeDown => {
                let mut st = self.node.lock();
                st.faults.down = true;
                st.faults.flavour = (st.rpc_count % 5) as u8;
            }
            Op::NodeUp => {
                let mut st = self.node.lock();
                st.faults.down = false;
                st.catch_up();
            }
            Op::NodeUpBehind { k } => {
                let mut st = self.node.lock();
                st.fall_behind(*k);
                st.faults.down = false;
            }
            Op::NodeUpThenDownAtBs { calls } => {
                let mut st = self.node.lock();
                st.faults.down = false;
                st.faults.down_at_bs = Some(st.bs_count + *calls as u64);
            }
            Op::NodeUpThenDownAfter { rpcs } => {
                let mut st = self.node.lock();
                st.faults.down = false;
                st.faults.down_at_rpc = Some(st.rpc_count + *rpcs as u64);
            }
            Op::FetchFault { nth, persistent } => {
                let mut st = self.node.lock();
                st.faults.fetch_calls = 0;
                st.faults.fetch_fault = Some((
                    *nth as u64,
                    if *persistent { FetchFault::Persistent } else { FetchFault::Transient },
                ));
            }
            _ => {}
        }
    }

    /// Executes one operation against a running tower. Panics from tower code propagate to the caller.
    pub fn exec_op(&mut self, ctx: &mut TowerCtx, op: &Op) -> Option<Stop> {
        let mut tu = BTreeSet::new();
        let mut tr = BTreeSet::new();
        match op {
            Op::Register { u } => {
                self.exec_register(ctx, *u);
                tu.insert(*u);
            }
            Op::RegisterBadId { kind } => {
                let id = match kind % 5 {
                    0 => vec![2u8; 32],
                    1 => vec![5u8; 33],
                    2 => vec![],
                    // right size, right prefix, x coordinate not on the curve (>= the field prime)
                    3 => std::iter::once(2u8).chain(std::iter::repeat(0xffu8).take(32)).collect(),
                    _ => std::iter::once(3u8).chain(std::iter::repeat(0xffu8).take(32)).collect(),
                };
                let before = self.db(ctx).digest();
                let r = tower::api_register(&ctx.api, id);
                if crate::http::is_refused_sentinel(&r) {
                    // judged by the HTTP oracle
                } else if !*ctx.reachable.0.lock().unwrap() && matches!(&r, Err(e) if e.code == tonic::Code::Unavailable) {
                    // the tower refuses everything while it has the node flagged unreachable
                } else if !matches!(&r, Err(e) if e.code == tonic::Code::InvalidArgument) {
                    self.report(vec![viol("C15", "bad_user_id", format!("op #{}: malformed user id not refused: {}", self.cur_op, short(&r)))]);
                }
                if self.db(ctx).digest() != before {
                    self.report(vec![viol("C15", "refused_request_changed_state", format!("op #{}: refused registration changed the database", self.cur_op))]);
                }
            }
            Op::Add { u, d, blob, tsd, sig } => {
                let (a, b) = self.exec_add(ctx, *u, *d, blob, *tsd, sig);
                tu = a;
                tr = b;
            }
            Op::Get { u, d, sig } => self.exec_get(ctx, *u, *d, sig),
            Op::SubInfo { u, sig } => self.exec_subinfo(ctx, *u, sig),
            Op::Poll => {
                let before_users: BTreeMap<u32, (u32, u32)> =
                    self.model.users.iter().map(|(u, m)| (*u, (m.available, m.expiry))).collect();
                let before_recs: BTreeMap<(u32, u32), RecState> =
                    self.model.recs.iter().map(|(k, r)| (*k, r.state.clone())).collect();
                self.exec_poll(ctx);
                for (u, v) in before_users.iter() {
                    if self.model.users.get(u).map(|m| (m.available, m.expiry)) != Some(*v) {
                        tu.insert(*u);
                    }
                }
                for (k, v) in before_recs.iter() {
                    if self.model.recs.get(k).map(|r| r.state.clone()).as_ref() != Some(v) {
                        tr.insert(*k);
                    }
                }
            }
            Op::Restart => return Some(Stop::Restart),
            Op::Http { base, m } => {
                let before_db = self.db(ctx).digest();
                let before_mem = mem_digest(ctx);
                crate::http::arm(m.clone());
                self.http_depth += 1;
                let stop = self.exec_op(ctx, base);
                self.http_depth -= 1;
                let _ = crate::http::take_armed();
                let seen = crate::http::take_seen();
                let mut vs = vec![];
                for v in seen.violations.iter() {
                    let mut detail = format!("op #{} {}: {}", self.cur_op, base.kind(), v.detail);
                    if let Some(p) = LAST_PANIC.with(|p| p.borrow().clone()) {
                        detail.push_str(&format!(" [panic at {}: {}]", normalise_location(&p.location), first_line(&p.message)));
                    }
                    vs.push(viol("C15", v.clause, detail));
                }
                if seen.status != 200 && (self.db(ctx).digest() != before_db || mem_digest(ctx) != before_mem) {
                    vs.push(viol(
                        "C15",
                        "refused_request_changed_state",
                        format!("op #{} {} under {:?}: answered {} but the tower state changed", self.cur_op, base.kind(), m, seen.status),
                    ));
                }
                self.model.probe(if seen.refused_expected { "http_refusal_expected" } else { "http_meaning_kept" });
                if seen.status == 503 {
                    self.model.probe("http_503");
                }
                self.report(vs);
                return stop;
            }
            Op::Ping => {
                let m = crate::http::take_armed().unwrap_or(crate::http::HttpMut::Plain);
                let _: Result<serde_json::Value, _> = crate::http::http_call(crate::http::Endpoint::Ping, serde_json::Value::Null, m);
                if !self.in_http() {
                    let seen = crate::http::take_seen();
                    let vs = seen.violations.iter().map(|v| viol("C15", v.clause, format!("op #{} ping: {}", self.cur_op, v.detail))).collect();
                    self.report(vs);
                }
            }
            other => self.node_op(other),
        }
        let full = self.cur_op + 1 == self.hist.ops.len();
        self.observe(ctx, &tu, &tr, full);
        None
    }
}

/// The byte string a user signs to submit an appointment, as documented: locator | encrypted_blob | to_self_delay (u32, big endian).
pub fn signed_appointment_message(locator: &[u8], blob: &[u8], to_self_delay: u32) -> Vec<u8> {
    let mut m = Vec::with_capacity(locator.len() + blob.len() + 4);
    m.extend_from_slice(locator);
    m.extend_from_slice(blob);
    m.extend_from_slice(&to_self_delay.to_be_bytes());
    m
}

/// What the tower holds in memory, as far as the (private) API shows it.
pub fn mem_digest(ctx: &TowerCtx) -> u64 {
    let mut items: Vec<String> = vec![];
    for a in tower::api_all_appointments(&ctx.api) {
        items.push(format!("{a:?}"));
    }
    for u in tower::api_get_users(&ctx.api) {
        items.push(format!("{}:{:?}", hex::encode(&u), tower::api_get_user(&ctx.api, u.clone()).map(|r| {
            let mut apps: Vec<String> = r.appointments.iter().map(hex::encode).collect();
            apps.sort();
            (r.available_slots, r.subscription_expiry, apps)
        })));
    }
    let info = tower::api_tower_info(&ctx.api);
    items.push(format!("{}/{}/{}", info.n_registered_users, info.n_watcher_appointments, info.n_responder_trackers));
    items.sort();
    let mut h: u64 = 0xcbf29ce484222325;
    for it in items {
        for b in it.as_bytes() {
            h ^= *b as u64;
            h = h.wrapping_mul(0x100000001b3);
        }
        h = h.wrapping_mul(31).wrapping_add(7);
    }
    h
}

/// Static clause names for violations of other properties observed after a crash (signatures need 'static strs).
pub fn after_crash_clause(property: &str, clause: &str) -> &'static str {
    // (a BTreeMap: creating a HashMap here would advance the calling thread's hash-key counter the first time only,
    // making the first simulation of a process differ from the later ones)
    use std::collections::BTreeMap;
    use std::sync::Mutex;
    static INTERN: Mutex<BTreeMap<String, &'static str>> = Mutex::new(BTreeMap::new());
    let key = format!("after_crash:{property}:{clause}");
    let mut g = INTERN.lock().unwrap_or_else(|e| e.into_inner());
    let m = &mut *g;
    if let Some(s) = m.get(&key) {
        return s;
    }
    let leaked: &'static str = Box::leak(key.clone().into_boxed_str());
    m.insert(key, leaked);
    leaked
}

pub fn short<T: std::fmt::Debug>(r: &Result<T, ApiErr>) -> String {
    match r {
        Ok(_) => "Ok(..)".to_string(),
        Err(e) => format!("Err({:?}, {:?})", e.code, e.msg),
    }
}

// ---------------------------------------------------------------------------------------------

/// Runs a history without crash injection (fault-free with respect to the tower process).
pub fn run_history(hist: &History) -> RunResult {
    install_panic_hook();
    crate::seed_os_randomness(crate::rng::derive(hist.seed, "os", 0));
    let dir = scratch_dir();
    let mut run = Run::new(hist);
    let crash_script = hist.faults.crash_at.clone();
    let counter = run.crash_counter.clone();
    let log = run.log.clone();
    let armed: Arc<Mutex<Vec<u64>>> = Arc::new(Mutex::new(crash_script));
    {
        let armed = armed.clone();
        let counter = counter.clone();
        teos_common::verif::set_crash_callback(Some(Arc::new(move |site: &'static str| {
            let n = counter.fetch_add(1, Ordering::SeqCst) + 1;
            let mut a = armed.lock().unwrap_or_else(|e| e.into_inner());
            if a.first() == Some(&n) {
                a.remove(0);
                drop(a);
                log.push(Event::Crash { site, n });
                std::panic::panic_any(CrashSignal);
            }
        })));
    }

    let mut next_op = 0usize;
    let mut boots = 0;
    loop {
        boots += 1;
        let node = run.node.clone();
        // Node-side block-download faults are armed for polls of a running tower, not for the bootstrap itself
        // (main() exits with "please try again" there, which is an operator-visible refusal to start, not a crash).
        node.lock().faults.fetch_fault = None;
        let cfg = hist.cfg.clone();
        let logc = run.log.clone();
        LAST_PANIC.with(|p| *p.borrow_mut() = None);
        let persisted: Option<bitcoin::BlockHash> = {
            let p = dir.join("teos_db.sql3");
            if p.exists() && DbReader::open(&p).has_schema() {
                DbReader::open(&p)
                    .dump()
                    .last_known_block
                    .and_then(|b| bitcoin::BlockHash::from_slice(&b).ok())
            } else {
                None
            }
        };
        let mut booted = false;
        let res = catch_unwind(AssertUnwindSafe(|| {
            let ev0 = logc.len();
            tower::run_tower(&dir, &node, &cfg, &logc, true, |ctx| {
                // boot bookkeeping
                let boot_tip = {
                    // The tower started from its last known block (or the node's tip on first boot): recover it from
                    // the first chain event or, if none, from the node tip / db.
                    let db = DbReader::open(&ctx.db_path).dump();
                    let _ = db;
                    None::<bitcoin::BlockHash>
                };
                let _ = boot_tip;
                run.on_boot(ctx, ev0, persisted);
                booted = true;
                let _front = (hist.property == "C15").then(|| {
                    crate::http::install_front(ctx.api.clone());
                    FrontGuard
                });
                if boots == 1 {
                    run.stats.crash_points_first_boot = run.crash_counter.load(Ordering::SeqCst);
                }
                while next_op < hist.ops.len() {
                    run.cur_op = next_op;
                    CUR_OP_GLOBAL.store(next_op as u64, Ordering::SeqCst);
                    let op = hist.ops[next_op].clone();
                    run.op_ev0 = run.log.len();
                    run.in_flight = Some(op.clone());
                    let stop = run.exec_op(ctx, &op);
                    run.in_flight = None;
                    run.stats.ops_executed += 1;
                    next_op += 1;
                    if let Some(Stop::Restart) = stop {
                        return Stop::Restart;
                    }
                }
                Stop::Done
            })
        }));
        match res {
            Ok(Stop::Done) => break,
            Ok(Stop::Restart) => {
                run.stats.restarts += 1;
                run.log.push(Event::Restart);
                continue;
            }
            Err(payload) => {
                if is_crash(&payload) {
                    run.stats.crashes += 1;
                    if booted {
                        run.on_crash();
                        next_op += 1;
                    }
                    run.after_crash = true;
                    if boots > 50 {
                        break;
                    }
                    continue;
                }
                let info = LAST_PANIC.with(|p| p.borrow_mut().take());
                let info = info.unwrap_or(PanicInfo {
                    location: "?".into(),
                    message: "?".into(),
                });
                if info.message.starts_with("HARNESS") || info.location.contains("/verif/sim/") || info.location.starts_with("src/") {
                    eprintln!("HARNESS ERROR: panic at {}: {}", info.location, info.message);
                    std::process::exit(2);
                }
                run.cur_op = next_op.min(hist.ops.len().saturating_sub(1));
                let loc = normalise_location(&info.location);
                if !booted && run.after_crash {
                    run.report(vec![Violation {
                        property: "C03",
                        clause: "restart_fails",
                        detail: format!("tower does not start after the crash: panic at {}: {}", loc, first_line(&info.message)),
                    }]);
                }
                run.report(vec![Violation {
                    property: "C11",
                    clause: "abort",
                    detail: format!("panic at {}: {}", loc, first_line(&info.message)),
                }]);
                break;
            }
        }
    }
    teos_common::verif::set_crash_callback(None);
    if std::env::var("SIM_TRACE").is_ok() {
        for e in run.log.since(0) {
            match e {
                Event::BlockEnd { hash, height, .. } => eprintln!("[ev] BlockEnd {hash} {height}"),
                Event::DisconnectEnd { hash, height, .. } => eprintln!("[ev] DisconnectEnd {hash} {height}"),
                other => eprintln!("[ev] {other:?}"),
            }
        }
    }
    run.finish(&dir)
}

pub fn is_crash(p: &Box<dyn Any + Send>) -> bool {
    p.downcast_ref::<CrashSignal>().is_some()
}

pub fn normalise_location(loc: &str) -> String {
    // file without line number
    let file = loc.rsplit_once(':').map(|x| x.0).unwrap_or(loc);
    file.trim_start_matches("/repo/").to_string()
}

pub fn first_line(s: &str) -> String {
    let l = s.lines().next().unwrap_or("");
    let mut out = String::new();
    // strip hex blobs / numbers so that the signature is stable
    for tok in l.split_whitespace() {
        if tok.len() > 24 && tok.chars().all(|c| c.is_ascii_hexdigit() || c == '(' || c == ')' || c == ',') {
            out.push_str("<hex> ");
        } else {
            out.push_str(tok);
            out.push(' ');
        }
    }
    out.trim().chars().take(160).collect()
}

impl<'a> Run<'a> {
    fn on_boot(&mut self, ctx: &mut TowerCtx, ev0: usize, persisted: Option<bitcoin::BlockHash>) {
        let events = self.log.since(ev0);
        let first = self.model.first_boot;
        self.model.tower_id.get_or_insert(ctx.tower_id);
        if self.model.tower_id != Some(ctx.tower_id) {
            self.report(vec![viol("C03", "tower_id_changed", "tower id changed across restart".into())]);
        }
        // main(): start from the persisted last known block if there is one, else from the node's best block.
        let node = self.node.lock();
        let start_tip = match persisted {
            Some(b) if node.blocks.contains_key(&b) => b,
            _ => {
                // first boot: the best block at boot time = parent of the first connected block, or the node tip
                let mut start = None;
                for e in events.iter() {
                    match e {
                        Event::DisconnectStart { hash, .. } => {
                            start = Some(*hash);
                            break;
                        }
                        Event::BlockStart { hash, .. } => {
                            start = Some(node.blocks[hash].0.header.prev_blockhash);
                            break;
                        }
                        _ => {}
                    }
                }
                start.unwrap_or(node.tip())
            }
        };
        let mut vs = vec![];
        if !first {
            // C03: the tower must resume from a block it had finished processing. Resuming *behind* is fine (blocks are
            // processed again); resuming *ahead* skips blocks whose breaches / confirmations nobody will ever handle.
            let done = self.model.tip();
            // (Resuming on a never-shown block of the same height as the processed tip -- an equal-work sibling -- is counted
            // but not judged: the open C03 finding (persisted target tip after a failed download during a reorganisation)
            // produces the same picture, and the two could not be told apart soundly; see DESIGN.md 8.4, C04-h.)
            if start_tip != done
                && !self.model.ever_shown.contains(&start_tip)
                && node.blocks.get(&start_tip).map(|b| b.1) == Some(self.model.h)
            {
                self.model.probe("restart_on_never_shown_sibling");
            }
            if start_tip != done {
                // Walk back from where the tower resumes until a block of the chain it had processed: every block on the way
                // that it was never shown is skipped for good.
                let mut skipped = vec![];
                let mut cur = start_tip;
                for _ in 0..300 {
                    if self.model.shown.contains(&cur) {
                        break;
                    }
                    if !self.model.ever_shown.contains(&cur) {
                        skipped.push(cur);
                    }
                    match node.blocks.get(&cur) {
                        Some((b, _)) => cur = b.header.prev_blockhash,
                        None => break,
                    }
                }
                let download_failed = node.fired.get("F3_block_fetch_fault").copied().unwrap_or(0)
                    + node.fired.get("F1_outage_blocksource").copied().unwrap_or(0)
                    > 0;
                if !skipped.is_empty() && !download_failed && persisted.is_some() {
                    // Judged whether or not the skipped block holds anything: the tower resumed from a block its listeners
                    // never saw although every download had succeeded.
                    self.model.probe("restart_on_never_processed_block_no_download_failure");
                    vs.push(viol(
                        "C03",
                        "restart_on_block_never_processed_without_download_failure",
                        format!(
                            "tower restarted at {start_tip}, a block it was never shown (processed tip: {done} at height {}), although no block download had failed",
                            self.model.h
                        ),
                    ));
                }
                if !skipped.is_empty() {
                    self.model.probe("restart_ahead_of_processed_tip");
                    let mut relevant = None;
                    let mut touched: Vec<(u32, u32)> = vec![];
                    for bh in skipped.iter() {
                        for tx in node.blocks[bh].0.txdata.iter().skip(1) {
                            let txid = tx.compute_txid();
                            for (k, r) in self.model.recs.iter() {
                                let is_dispute = self.uni.dispute(k.1).compute_txid() == txid;
                                let is_penalty = r.penalty.as_ref().map(|p| p.compute_txid()) == Some(txid);
                                if (is_dispute && r.state == RecState::Watched) || (is_penalty && r.state == RecState::Responded) {
                                    relevant = Some((*k, node.blocks[bh].1));
                                    touched.push(*k);
                                }
                            }
                        }
                    }
                    // What the skipped blocks would have done to these records never happens: that is this (C03) finding. Its
                    // consequences (a breach never answered, a confirmation never recorded) are not reported a second time
                    // under C01 / C04: the records are adopted as they are.
                    for k in touched {
                        if let Some(r) = self.model.recs.get_mut(&k) {
                            r.unspecified = true;
                        }
                        if let Some(m) = self.model.users.get_mut(&k.0) {
                            m.tainted = true;
                        }
                    }
                    if let Some((k, h)) = relevant {
                        vs.push(viol(
                            "C03",
                            if persisted.is_some() && download_failed {
                                "restart_skips_blocks_persisted_tip_ahead_of_processed"
                            } else if persisted.is_some() {
                                // No block download has failed in this run: the mechanism of the open finding (target tip
                                // persisted although the listeners stopped half-way) cannot be the cause.
                                "restart_on_block_never_processed_without_download_failure"
                            } else {
                                "restart_skips_blocks_no_persisted_tip"
                            },
                            format!(
                                "tower restarted at {start_tip} but had only finished processing up to height {}; skipped block {h} (never delivered to the tower) holds the dispute/penalty of (user {}, dispute {})",
                                self.model.h, k.0, k.1
                            ),
                        ));
                    }
                } else {
                    self.model.probe("restart_behind_processed_tip");
                }
            }
        }
        self.model.on_boot(&node, start_tip);
        drop(node);
        self.model.first_boot = false;
        self.report(vs);
        self.process_chain_events(&events);
        if let Some((pb, _)) = self.partial_block.take() {
            // The interrupted block was not handled again (the chain moved on or its download failed): whatever it had
            // already changed stays; adopt it for the records and users it could touch.
            self.model.probe("partial_block_not_reprocessed");
            let node = self.node.lock();
            let txids: BTreeSet<bitcoin::Txid> =
                node.blocks.get(&pb).map(|b| b.0.txdata.iter().map(|t| t.compute_txid()).collect()).unwrap_or_default();
            let pb_height = node.blocks.get(&pb).map(|b| b.1);
            drop(node);
            // The gatekeeper is the first listener: users whose grace period was over at that block were purged by it
            // (durably) before the crash. That block was connected; its purge stands.
            if let Some(ph) = pb_height {
                let db = self.db(ctx);
                let gone: Vec<u32> = self
                    .model
                    .users
                    .iter()
                    .filter(|(_, m)| ph as u64 >= m.expiry as u64 + self.model.cfg.grace as u64 && !db.users.iter().any(|r| r.user_id == m.pk))
                    .map(|(u, _)| *u)
                    .collect();
                for u in gone {
                    self.model.users.remove(&u);
                    self.model.recs.retain(|k, _| k.0 != u);
                    self.model.probe("user_purged_by_interrupted_block");
                }
            }
            let keys: Vec<(u32, u32)> = self.model.recs.keys().cloned().collect();
            for k in keys {
                let touched = {
                    let r = &self.model.recs[&k];
                    txids.contains(&self.uni.dispute(k.1).compute_txid()) || r.state == RecState::Responded
                };
                if touched {
                    self.model.recs.get_mut(&k).unwrap().unspecified = true;
                    if let Some(m) = self.model.users.get_mut(&k.0) {
                        m.tainted = true;
                    }
                }
            }
        }
        self.observe(ctx, &BTreeSet::new(), &BTreeSet::new(), false);
    }

    /// The process died at a crash point while `in_flight` was being executed: blocks that were completely handled are
    /// accounted for; for an interrupted request the statement allows "not applied", "applied", or "slots charged but
    /// nothing stored" -- never a gift of slots, never more than the request's own slots lost.
    fn on_crash(&mut self) {
        let events = self.log.since(self.op_ev0);
        let op = self.in_flight.take();
        self.model.probe("crash_injected");
        match op {
            Some(Op::Poll) => {
                self.process_chain_events(&events);
                self.model.probe("crash_in_poll");
                if self.partial_block.is_none() {
                    // Blocks of the interrupted poll were handled completely but the poll itself did not finish: they are
                    // delivered again after the restart. Until the tower is back at the last of them, the durable state is
                    // ahead of the chain position it is re-processing.
                    let last_done = events.iter().rev().find_map(|e| match e {
                        Event::BlockEnd { hash, .. } => Some(*hash),
                        _ => None,
                    });
                    if let Some(h) = last_done {
                        self.partial_block = Some((h, vec![]));
                    }
                }
            }
            Some(Op::Register { u }) => {
                self.model.probe("crash_in_register");
                let cfg = self.model.cfg.clone();
                let h = self.model.h;
                let before = self.model.users.get(&u).cloned();
                let after = match &before {
                    Some(m) => m.available.checked_add(cfg.slots).map(|a| {
                        let mut x = m.clone();
                        x.available = a;
                        x.expiry = m.expiry.checked_add(cfg.duration).unwrap_or(u32::MAX);
                        x.granted += cfg.slots as u64;
                        x
                    }),
                    None => Some(crate::model::MUser {
                        pk: self.model.user_pk(u),
                        available: cfg.slots,
                        start: h,
                        expiry: h.saturating_add(cfg.duration),
                        granted: cfg.slots as u64,
                        forfeited: 0,
                        tainted: false,
                    }),
                };
                self.model.crash_allow = Some(crate::model::CrashAllow::Register { u, before, after });
            }
            Some(Op::Add { u, d, blob, tsd, sig }) => {
                self.model.probe("crash_in_add");
                let eu = match sig {
                    Sig::Good | Sig::GoodUpper => Some(u),
                    Sig::OtherUser(u2) => Some(u2),
                    _ => None,
                };
                if let Some(eu) = eu.filter(|e| self.model.users.contains_key(e)) {
                    let (blob_bytes, penalty) = self.blob_of(d, &blob);
                    let existing = self.model.recs.get(&(eu, d)).cloned();
                    let required = slots_for(blob_bytes.len()) as i64;
                    let used = existing
                        .as_ref()
                        .filter(|x| x.state == RecState::Watched)
                        .map(|x| slots_for(x.blob.len()) as i64)
                        .unwrap_or(0);
                    let diff = required - used;
                    let avail = self.model.users[&eu].available as i64;
                    let loc = self.model.locator(d);
                    let app = Appointment::new(loc, blob_bytes.clone(), tsd);
                    let mut sig_str = self.sign_cached(eu, &app.to_vec());
                    if sig == Sig::GoodUpper {
                        sig_str = sig_str.to_ascii_uppercase();
                    }
                    self.model.remember_verdicts(&rpcs_of(&events));
                    self.model.crash_allow = Some(crate::model::CrashAllow::Add {
                        u: eu,
                        d,
                        lo: (avail - diff.max(0)).max(0) as u32,
                        hi: (avail + (-diff).max(0)) as u32,
                        charged: (avail - diff).max(0) as u32,
                        new_blob: blob_bytes,
                        new_tsd: tsd,
                        new_sig: sig_str,
                        new_penalty: penalty,
                    });
                }
            }
            _ => {}
        }
    }

    fn finish(mut self, dir: &std::path::Path) -> RunResult {
        let _ = std::fs::remove_dir_all(dir);
        self.stats.crash_points_passed = self.crash_counter.load(Ordering::SeqCst);
        for (k, v) in self.model.probes.iter() {
            self.stats.probes.insert(k.to_string(), *v);
        }
        let st = self.node.lock();
        for (k, v) in st.fired.iter() {
            self.stats.faults_fired.insert(k.to_string(), *v);
        }
        drop(st);
        for (k, v) in crate::http::take_stats() {
            *self.stats.probes.entry(format!("http_{k}")).or_insert(0) += v;
        }
        // digest of the event log (determinism check)
        let mut h = 0u64;
        for e in self.log.since(0) {
            let s = match &e {
                Event::BlockEnd { hash, height, db, .. } => format!("BE {hash} {height} {:?}", db.as_ref().map(|d| hex::encode(d.digest()))),
                Event::DisconnectEnd { hash, height, db, .. } => format!("DE {hash} {height} {:?}", db.as_ref().map(|d| hex::encode(d.digest()))),
                other => format!("{other:?}"),
            };
            h = fnv(h, s.as_bytes());
        }
        for f in self.found.iter() {
            h = fnv(h, format!("{} {} {}", f.op_index, f.v.property, f.v.clause).as_bytes());
        }
        self.stats.log_digest = h;
        self.stats.nontrivial = self.stats.probes.keys().any(|k| {
            k.starts_with("breach") || k.starts_with("trigger") || k.starts_with("tracker") || k.contains("purged") || k.contains("reannounce")
        }) || !self.stats.faults_fired.is_empty();
        if !self.hist.faults.crash_at.is_empty() && self.stats.crashes == 0 {
            self.stats.nontrivial = false;
        }
        if self.hist.property == "C15" {
            self.stats.nontrivial =
                self.stats.probes.contains_key("http_refusal_expected") && self.stats.probes.contains_key("http_meaning_kept");
        }
        RunResult {
            found: self.found,
            stats: self.stats,
        }
    }
}
