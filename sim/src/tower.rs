//! Assembles the real tower in-process (the wiring of teos/src/main.rs restated) around a SimNode.

use std::future::Future;
use std::ops::Deref;
use std::path::{Path, PathBuf};
use std::pin::Pin;
use std::sync::Arc;
use std::task::{Context, Poll as TaskPoll, RawWaker, RawWakerVTable, Waker};

use bitcoin::block::Header;
use bitcoin::secp256k1::{PublicKey, Secp256k1};
use bitcoin::{BlockHash, Network};
use lightning::chain;
use lightning_block_sync::init::validate_best_block_header;
use lightning_block_sync::poll::{ChainPoller, Validate, ValidatedBlock, ValidatedBlockHeader};
use lightning_block_sync::{BlockSource, BlockSourceError, SpvClient, UnboundedCache};
use tonic::{Request, Status};

use teos::api::internal::InternalAPI;
use teos::carrier::Carrier;
use teos::chain_monitor::ChainMonitor;
use teos::dbm::DBM;
use teos::gatekeeper::Gatekeeper;
use teos::protos as msgs;
use teos::protos::private_tower_services_server::PrivateTowerServices;
use teos::protos::public_tower_services_server::PublicTowerServices;
use teos::responder::Responder;
use teos::watcher::Watcher;
use teos_common::constants::IRREVOCABLY_RESOLVED;
use teos_common::cryptography::get_random_keypair;
use teos_common::protos as common_msgs;
use teos_common::verif::sync::{Condvar, Mutex};
use teos_common::TowerId;

use crate::events::{Event, EventLog};
use crate::node::SimNode;
use crate::obs::{DbDump, DbReader};
use crate::ops::TowerCfg;

fn noop_waker() -> Waker {
    fn clone(_: *const ()) -> RawWaker {
        RawWaker::new(std::ptr::null(), &VTABLE)
    }
    fn noop(_: *const ()) {}
    static VTABLE: RawWakerVTable = RawWakerVTable::new(clone, noop, noop, noop);
    unsafe { Waker::from_raw(RawWaker::new(std::ptr::null(), &VTABLE)) }
}

/// Every future in the simulated tower is ready at its first poll (no real I/O, no timers). A future that stays
/// pending is a harness error.
pub fn block_on<F: Future>(mut fut: F) -> F::Output {
    let waker = noop_waker();
    let mut cx = Context::from_waker(&waker);
    let mut fut = unsafe { Pin::new_unchecked(&mut fut) };
    for _ in 0..1000 {
        if let TaskPoll::Ready(v) = fut.as_mut().poll(&mut cx) {
            return v;
        }
    }
    panic!("HARNESS: future stayed pending");
}

// teos/src/main.rs::get_last_n_blocks, verbatim apart from the log line.
async fn get_last_n_blocks<B, T>(
    poller: &mut ChainPoller<B, T>,
    mut last_known_block: ValidatedBlockHeader,
    n: usize,
) -> Result<Vec<ValidatedBlock>, BlockSourceError>
where
    B: std::ops::DerefMut<Target = T> + Sized + Send + Sync,
    T: BlockSource,
{
    use lightning_block_sync::poll::Poll;
    let mut last_n_blocks = Vec::with_capacity(n);
    for _ in 0..n {
        let block = poller.fetch_block(&last_known_block).await?;
        last_known_block = poller.look_up_previous_header(&last_known_block).await?;
        last_n_blocks.push(block);
    }
    Ok(last_n_blocks)
}

/// Listener placed before the gatekeeper / after the responder: marks block boundaries in the event log and takes
/// a durable-state snapshot at the end of each block.
pub struct Marker {
    pub pre: bool,
    pub log: EventLog,
    pub db_path: PathBuf,
    pub snapshots: bool,
    pub probe: Option<(Arc<Watcher>, Arc<Responder>)>,
}

impl Marker {
    fn index_snapshot(&self) -> Option<Box<crate::events::IndexSnap>> {
        let (w, r) = self.probe.as_ref()?;
        let (ce, cb) = w.verif_locator_cache();
        let (ie, ib) = r.verif_tx_index();
        Some(Box::new(crate::events::IndexSnap {
            cache_entries: ce.into_iter().map(|(l, t)| (l.to_vec(), t)).collect(),
            cache_blocks: cb.into_iter().map(|(b, ks, h)| (b, ks.len(), h)).collect(),
            index_entries: ie,
            index_blocks: ib.into_iter().map(|(b, ks, h)| (b, ks.len(), h)).collect(),
        }))
    }
}

impl chain::Listen for Marker {
    fn filtered_block_connected(&self, header: &Header, txdata: &chain::transaction::TransactionData, height: u32) {
        if self.pre {
            self.log.push(Event::BlockStart {
                hash: header.block_hash(),
                height,
                txids: txdata.iter().map(|(_, t)| t.compute_txid()).collect(),
            });
        } else {
            let db = self.snapshots.then(|| Box::new(DbReader::open(&self.db_path).dump()));
            self.log.push(Event::BlockEnd {
                hash: header.block_hash(),
                height,
                db,
                idx: self.index_snapshot(),
            });
            crate::conc::on_chain_event_boundary();
        }
    }

    fn block_disconnected(&self, header: &Header, height: u32) {
        if self.pre {
            self.log.push(Event::DisconnectStart {
                hash: header.block_hash(),
                height,
            });
        } else {
            let db = self.snapshots.then(|| Box::new(DbReader::open(&self.db_path).dump()));
            self.log.push(Event::DisconnectEnd {
                hash: header.block_hash(),
                height,
                db,
                idx: self.index_snapshot(),
            });
            crate::conc::on_chain_event_boundary();
        }
    }
}

pub type Reachable = Arc<(Mutex<bool>, Condvar)>;

/// What a running tower exposes to the harness.
pub struct TowerCtx<'a> {
    pub api: Arc<InternalAPI>,
    pub watcher: Arc<Watcher>,
    pub responder: Arc<Responder>,
    pub gatekeeper: Arc<Gatekeeper>,
    pub reachable: Reachable,
    pub tower_id: TowerId,
    pub db_path: PathBuf,
    pub dbm_mutex_id: usize,
    pub poll: &'a mut dyn FnMut(),
}

/// Boots the tower on `dir` exactly as `main()` does (minus config, logging, TLS, Tor, sockets), runs the backlog
/// poll, then hands control to `f`. Everything is dropped when `f` returns or unwinds.
pub fn run_tower<R>(
    dir: &Path,
    node: &SimNode,
    cfg: &TowerCfg,
    log: &EventLog,
    snapshots: bool,
    f: impl FnOnce(&mut TowerCtx) -> R,
) -> R {
    let db_path = dir.join("teos_db.sql3");
    let dbm = Arc::new(Mutex::new(DBM::new(db_path.clone()).unwrap()));

    let (tower_sk, tower_pk) = {
        let locked_db = dbm.lock().unwrap();
        if let Some(sk) = locked_db.load_tower_key() {
            (sk, PublicKey::from_secret_key(&Secp256k1::new(), &sk))
        } else {
            let (sk, pk) = get_random_keypair();
            locked_db.store_tower_key(&sk).unwrap();
            (sk, pk)
        }
    };

    let bitcoind_reachable: Reachable = Arc::new((Mutex::new(true), Condvar::new()));
    let rpc = Arc::new(node.rpc_client());
    let source = Arc::new(node.clone());
    let derefed: &SimNode = source.deref();

    let last_known_block = dbm.lock().unwrap().load_last_known_block();
    let tip = if let Some(block_hash) = last_known_block {
        block_on(derefed.get_header(&block_hash, None))
            .unwrap()
            .validate(block_hash)
            .unwrap()
    } else {
        let tip = block_on(validate_best_block_header(derefed)).unwrap();
        // main.rs (fix 28bf8ca): the starting point of a fresh bootstrap is persisted.
        dbm.lock()
            .unwrap()
            .store_last_known_block(&tip.header.block_hash())
            .unwrap();
        tip
    };
    // The simulated chain is only a few hundred blocks long and reorganisations may reach down to its first blocks: a
    // tower that resumes from a block below height 100 (only possible when the persisted block is one of a replacement
    // branch that was being connected) loads as many blocks as exist, where the real chain would always have 100.
    let n_boot = (IRREVOCABLY_RESOLVED as usize).min(tip.height as usize).max(1);

    let gatekeeper = Arc::new(Gatekeeper::new(
        tip.height,
        cfg.slots,
        cfg.duration,
        cfg.grace,
        dbm.clone(),
    ));

    let mut source_for_poller = node.clone();
    let mut poller = ChainPoller::new(&mut source_for_poller, Network::Regtest);
    let (responder, watcher) = {
        // No durable write happens while the last 100 blocks are downloaded: all ~200 crash points in there are
        // equivalent to the one before, so they are not numbered.
        crate::hooks::SUPPRESS_POINTS.with(|c| c.set(true));
        let last_n_blocks = block_on(get_last_n_blocks(&mut poller, tip, n_boot));
        crate::hooks::SUPPRESS_POINTS.with(|c| c.set(false));
        let last_n_blocks = last_n_blocks.unwrap();
        let responder = Arc::new(Responder::new(
            &last_n_blocks,
            tip.height,
            Carrier::new(rpc, bitcoind_reachable.clone(), tip.height),
            gatekeeper.clone(),
            dbm.clone(),
        ));
        let watcher = Arc::new(Watcher::new(
            gatekeeper.clone(),
            responder.clone(),
            &last_n_blocks[0..6.min(last_n_blocks.len())],
            tip.height,
            tower_sk,
            TowerId(tower_pk),
            dbm.clone(),
        ));
        (responder, watcher)
    };

    let (shutdown_trigger, shutdown_signal) = triggered::trigger();

    let pre = Box::new(Marker {
        pre: true,
        log: log.clone(),
        db_path: db_path.clone(),
        snapshots,
        probe: None,
    });
    let post = Box::new(Marker {
        pre: false,
        log: log.clone(),
        db_path: db_path.clone(),
        snapshots,
        probe: snapshots.then(|| (watcher.clone(), responder.clone())),
    });
    // main.rs: `&(gatekeeper, &(watcher.clone(), responder))` -- the same order, bracketed by the two markers.
    let inner3 = (responder.clone(), post);
    let inner2 = (watcher.clone(), &inner3);
    let inner1 = (gatekeeper.clone(), &inner2);
    let listener = &(pre, &inner1);
    let cache = &mut UnboundedCache::new();
    let spv_client = SpvClient::new(tip, poller, cache, listener);
    let mut chain_monitor = block_on(ChainMonitor::new(
        spv_client,
        tip,
        dbm.clone(),
        1,
        shutdown_signal,
        bitcoind_reachable.clone(),
    ));

    // "Get all the components up to date if there's a backlog of blocks"
    block_on(chain_monitor.poll_best_tip());

    let api = Arc::new(InternalAPI::new(
        watcher.clone(),
        vec![msgs::NetworkAddress::from_ipv4("127.0.0.1".to_owned(), 9814)],
        bitcoind_reachable.clone(),
        shutdown_trigger,
    ));

    let dbm_mutex_id = dbm.id();
    let mut poll = || block_on(chain_monitor.poll_best_tip());
    let mut ctx = TowerCtx {
        api,
        watcher,
        responder,
        gatekeeper,
        reachable: bitcoind_reachable,
        tower_id: TowerId(tower_pk),
        db_path,
        dbm_mutex_id,
        poll: &mut poll,
    };
    f(&mut ctx)
}

// ---------------------------------------------------------------------------------------------
// API calls

#[derive(Clone, Debug, PartialEq, Eq)]
pub struct ApiErr {
    pub code: tonic::Code,
    pub msg: String,
}

impl From<Status> for ApiErr {
    fn from(s: Status) -> Self {
        ApiErr {
            code: s.code(),
            msg: s.message().to_owned(),
        }
    }
}

pub fn api_register(api: &Arc<InternalAPI>, user_id: Vec<u8>) -> Result<common_msgs::RegisterResponse, ApiErr> {
    if let Some(m) = crate::http::take_armed() {
        return crate::http::http_call(
            crate::http::Endpoint::Register,
            serde_json::json!({ "user_id": hex::encode(&user_id) }),
            m,
        );
    }
    block_on(PublicTowerServices::register(
        api,
        Request::new(common_msgs::RegisterRequest { user_id }),
    ))
    .map(|r| r.into_inner())
    .map_err(ApiErr::from)
}

pub fn api_add(
    api: &Arc<InternalAPI>,
    locator: Vec<u8>,
    blob: Vec<u8>,
    tsd: u32,
    signature: String,
) -> Result<common_msgs::AddAppointmentResponse, ApiErr> {
    if let Some(m) = crate::http::take_armed() {
        return crate::http::http_call(
            crate::http::Endpoint::AddAppointment,
            serde_json::json!({
                "appointment": { "locator": hex::encode(&locator), "encrypted_blob": hex::encode(&blob), "to_self_delay": tsd },
                "signature": signature,
            }),
            m,
        );
    }
    block_on(PublicTowerServices::add_appointment(
        api,
        Request::new(common_msgs::AddAppointmentRequest {
            appointment: Some(common_msgs::Appointment {
                locator,
                encrypted_blob: blob,
                to_self_delay: tsd,
            }),
            signature,
        }),
    ))
    .map(|r| r.into_inner())
    .map_err(ApiErr::from)
}

pub fn api_get(
    api: &Arc<InternalAPI>,
    locator: Vec<u8>,
    signature: String,
) -> Result<common_msgs::GetAppointmentResponse, ApiErr> {
    if let Some(m) = crate::http::take_armed() {
        return crate::http::http_call(
            crate::http::Endpoint::GetAppointment,
            serde_json::json!({ "locator": hex::encode(&locator), "signature": signature }),
            m,
        );
    }
    block_on(PublicTowerServices::get_appointment(
        api,
        Request::new(common_msgs::GetAppointmentRequest { locator, signature }),
    ))
    .map(|r| r.into_inner())
    .map_err(ApiErr::from)
}

pub fn api_subinfo(
    api: &Arc<InternalAPI>,
    signature: String,
) -> Result<common_msgs::GetSubscriptionInfoResponse, ApiErr> {
    if let Some(m) = crate::http::take_armed() {
        return crate::http::http_call(
            crate::http::Endpoint::GetSubscriptionInfo,
            serde_json::json!({ "signature": signature }),
            m,
        );
    }
    block_on(PublicTowerServices::get_subscription_info(
        api,
        Request::new(common_msgs::GetSubscriptionInfoRequest { signature }),
    ))
    .map(|r| r.into_inner())
    .map_err(ApiErr::from)
}

pub fn api_get_user(api: &Arc<InternalAPI>, user_id: Vec<u8>) -> Result<msgs::GetUserResponse, ApiErr> {
    block_on(PrivateTowerServices::get_user(
        api,
        Request::new(msgs::GetUserRequest { user_id }),
    ))
    .map(|r| r.into_inner())
    .map_err(ApiErr::from)
}

pub fn api_get_users(api: &Arc<InternalAPI>) -> Vec<Vec<u8>> {
    block_on(PrivateTowerServices::get_users(api, Request::new(())))
        .unwrap()
        .into_inner()
        .user_ids
}

pub fn api_tower_info(api: &Arc<InternalAPI>) -> msgs::GetTowerInfoResponse {
    block_on(PrivateTowerServices::get_tower_info(api, Request::new(())))
        .unwrap()
        .into_inner()
}

pub fn api_all_appointments(api: &Arc<InternalAPI>) -> Vec<common_msgs::AppointmentData> {
    block_on(PrivateTowerServices::get_all_appointments(api, Request::new(())))
        .unwrap()
        .into_inner()
        .appointments
}

pub fn dump_db(path: &Path) -> DbDump {
    DbReader::open(path).dump()
}

pub fn tip_hash_of(ctx: &TowerCtx) -> Option<BlockHash> {
    let _ = ctx;
    None
}
