//! C19, component level: the bounded index (`teos::tx_index::TxIndex`, the structure behind both the locator cache and
//! the responder's transaction index) driven directly with seeded connect / disconnect histories over *small* windows
//! and *small* key universes, against the list-of-blocks specification of the statement.
//!
//! The system-level C19 runs reach the two production instances through the chain monitor, where every block carries a
//! coinbase and N is 6 / 100; here N is 1..6, blocks may contribute no key at all, a key may come back in a replacement
//! block, and reorganisations may be deeper than the window. The index is the real code; only the blocks are made up
//! (headers chained by hand: `update` does not look at proof of work).

use std::collections::{BTreeMap, BTreeSet, HashMap};

use bitcoin::block::{Header, Version};
use bitcoin::hashes::Hash;
use bitcoin::{BlockHash, CompactTarget, TxMerkleNode, Txid};
use lightning_block_sync::poll::Validate;
use lightning_block_sync::BlockData;
use serde::{Deserialize, Serialize};

use teos::verif_access::TxIndex;

use crate::events::EventLog;
use crate::node::NodeState;
use crate::rng::{derive, Rng};

#[derive(Serialize, Deserialize, Clone, Debug, PartialEq, Eq)]
pub enum IdxOp {
    /// A block is connected on top of the tip. `fresh` keys never seen before; `back` picks (mod count) among the keys
    /// of disconnected blocks that have not been confirmed again.
    Connect { fresh: u32, back: Vec<u32> },
    /// The tip is disconnected.
    Disconnect,
}

#[derive(Serialize, Deserialize, Clone, Debug, PartialEq, Eq)]
pub struct IdxHistory {
    /// window size (the index is bootstrapped with the last `n` blocks of the node's initial chain)
    pub n: u32,
    pub ops: Vec<IdxOp>,
}

#[derive(Serialize, Deserialize, Clone, Debug)]
pub struct IdxReplay {
    pub property: String,
    pub signature: String,
    pub detail: String,
    pub engine: String,
    pub idx_history: IdxHistory,
}

#[derive(Clone, Debug)]
pub struct IdxFound {
    pub clause: &'static str,
    pub op_index: usize,
    pub detail: String,
}

#[derive(Default, Clone, Debug)]
pub struct IdxResult {
    pub found: Option<IdxFound>,
    pub digest: u64,
    pub ops: u64,
    pub probes: BTreeMap<String, u64>,
    pub nontrivial: bool,
}

pub fn gen_idx_history(seed: u64) -> IdxHistory {
    let mut r = Rng::new(derive(seed, "txidx", 0));
    let n = *r.pick(&[1u32, 2, 2, 3, 3, 4, 6]);
    let len = r.range(3, 40) as usize;
    let mut ops = vec![];
    while ops.len() < len {
        match r.below(10) {
            0..=5 => ops.push(IdxOp::Connect {
                fresh: *r.pick(&[0u32, 0, 1, 1, 2, 3]),
                back: (0..r.below(3)).map(|_| r.below(8) as u32).collect(),
            }),
            6 | 7 => ops.push(IdxOp::Disconnect),
            8 => {
                // a reorganisation: d blocks go, d+1 come (some bringing the same keys back)
                let d = r.range(1, (n as u64 + 2).min(6)) as usize;
                for _ in 0..d {
                    ops.push(IdxOp::Disconnect);
                }
                for _ in 0..=d {
                    ops.push(IdxOp::Connect {
                        fresh: *r.pick(&[0u32, 0, 1]),
                        back: (0..r.below(3)).map(|_| r.below(8) as u32).collect(),
                    });
                }
            }
            _ => {
                // a block without anything of interest, then something happens right after
                ops.push(IdxOp::Connect { fresh: 0, back: vec![] });
                if r.chance(1, 2) {
                    ops.push(IdxOp::Disconnect);
                }
            }
        }
    }
    IdxHistory { n, ops }
}

fn fnv(acc: u64, data: &[u8]) -> u64 {
    let mut h = acc ^ 0xcbf29ce484222325;
    for b in data {
        h ^= *b as u64;
        h = h.wrapping_mul(0x100000001b3);
    }
    h
}

fn key(i: u32) -> Txid {
    let mut b = [0u8; 32];
    b[..4].copy_from_slice(&i.to_be_bytes());
    b[31] = 0x19;
    Txid::from_byte_array(b)
}

struct Spec {
    /// the active chain as shown to the index: (hash, keys), oldest first; `base` is the height of its first element
    chain: Vec<(BlockHash, Vec<Txid>)>,
    base: u32,
    /// number of blocks the window covers now: push (capped at n), pop on disconnect
    len: usize,
    n: usize,
    /// hashes that were shown once and are not in the chain any more, or have aged out
    gone: BTreeSet<BlockHash>,
    /// keys of disconnected blocks not confirmed again
    pool: Vec<Txid>,
    next_key: u32,
    counter: u32,
}

pub fn run_idx(h: &IdxHistory) -> IdxResult {
    let mut res = IdxResult::default();
    let n = h.n.clamp(1, 6) as usize;
    // bootstrap exactly as Watcher / Responder do: the last n validated blocks of the chain, newest first
    let node = NodeState::new(EventLog::new(), 20, false);
    let tip_height = node.height();
    let mut last_n = vec![];
    let mut spec = Spec {
        chain: vec![],
        base: tip_height + 1 - n as u32,
        len: n,
        n,
        gone: BTreeSet::new(),
        pool: vec![],
        next_key: 0,
        counter: 0,
    };
    for k in 0..n as u32 {
        let b = node.block_at(tip_height - k).clone();
        let bh = b.block_hash();
        last_n.push(BlockData::FullBlock(b).validate(bh).expect("HARNESS: initial block does not validate"));
    }
    for k in (0..n as u32).rev() {
        let b = node.block_at(tip_height - k);
        spec.chain.push((b.block_hash(), b.txdata.iter().map(|t| t.compute_txid()).collect()));
    }
    let mut idx: TxIndex<Txid, BlockHash> = TxIndex::new(&last_n, tip_height);
    let mut digest = fnv(0, &[n as u8]);
    if let Some(f) = compare(&idx, &spec, 0, "after bootstrap") {
        res.found = Some(f);
        return res;
    }
    for (i, op) in h.ops.iter().enumerate() {
        res.ops += 1;
        match op {
            IdxOp::Connect { fresh, back } => {
                let mut keys: Vec<Txid> = vec![];
                for _ in 0..(*fresh).min(4) {
                    keys.push(key(spec.next_key));
                    spec.next_key += 1;
                }
                for b in back.iter().take(3) {
                    if !spec.pool.is_empty() {
                        let k = spec.pool.remove(*b as usize % spec.pool.len());
                        keys.push(k);
                        *res.probes.entry("key_back_in_replacement_block".into()).or_insert(0) += 1;
                    }
                }
                if keys.is_empty() {
                    *res.probes.entry("block_without_keys".into()).or_insert(0) += 1;
                }
                spec.counter += 1;
                let prev = spec.chain.last().map(|b| b.0).unwrap_or_else(BlockHash::all_zeros);
                let header = Header {
                    version: Version::TWO,
                    prev_blockhash: prev,
                    merkle_root: TxMerkleNode::from_byte_array([spec.counter as u8; 32]),
                    time: 1_700_000_000 + spec.counter,
                    bits: CompactTarget::from_consensus(0x207fffff),
                    nonce: spec.counter,
                };
                let bh = header.block_hash();
                let data: HashMap<Txid, BlockHash> = keys.iter().map(|k| (*k, bh)).collect();
                idx.update(header, &data);
                spec.chain.push((bh, keys));
                if spec.len == spec.n {
                    let aged = spec.chain[spec.chain.len() - 1 - spec.n].0;
                    spec.gone.insert(aged);
                    *res.probes.entry("block_aged_out".into()).or_insert(0) += 1;
                } else {
                    spec.len += 1;
                    *res.probes.entry("connect_while_refilling".into()).or_insert(0) += 1;
                }
            }
            IdxOp::Disconnect => {
                // (the chain monitor never disconnects below what it has shown; keep one block of the bootstrap chain)
                if spec.chain.len() <= 1 {
                    continue;
                }
                let (bh, keys) = spec.chain.pop().unwrap();
                idx.remove_disconnected_block(&bh);
                spec.gone.insert(bh);
                spec.pool.extend(keys);
                if spec.len == 0 {
                    *res.probes.entry("disconnect_below_window".into()).or_insert(0) += 1;
                }
                spec.len = spec.len.saturating_sub(1);
                *res.probes.entry("block_disconnected".into()).or_insert(0) += 1;
                res.nontrivial = true;
            }
        }
        let snap = idx.verif_snapshot();
        digest = fnv(digest, &snap.2.to_be_bytes());
        for (b, ks) in snap.1.iter() {
            digest = fnv(digest, &b.to_byte_array());
            digest = fnv(digest, &[ks.len() as u8]);
        }
        if let Some(f) = compare(&idx, &spec, i, &format!("after op #{i}")) {
            res.found = Some(f);
            break;
        }
    }
    res.digest = digest;
    res
}

fn compare(idx: &TxIndex<Txid, BlockHash>, spec: &Spec, op_index: usize, at: &str) -> Option<IdxFound> {
    let (entries, blocks, tip, _size) = idx.verif_snapshot();
    let total = spec.chain.len();
    let window = &spec.chain[total - spec.len.min(total)..];
    let got: Vec<BlockHash> = blocks.iter().map(|b| b.0).collect();
    let want: Vec<BlockHash> = window.iter().map(|b| b.0).collect();
    let found = |clause: &'static str, detail: String| Some(IdxFound { clause, op_index, detail });
    if got != want {
        return found(
            "component:blocks_covered",
            format!("{at}: the index covers {} blocks ending at {:?}, expected the last {} blocks of the active chain ending at {:?}", got.len(), got.last(), want.len(), want.last()),
        );
    }
    let true_tip = spec.base + total as u32 - 1;
    if tip != true_tip {
        return found("component:tip", format!("{at}: the index believes its tip is at height {tip}, the active chain ends at {true_tip}"));
    }
    for (k, (bh, _)) in window.iter().enumerate() {
        let truth = (true_tip as usize + 1 + k) - window.len();
        let reported = idx.get_height(bh);
        if reported != Some(truth) {
            return found("component:block_height", format!("{at}: height {reported:?} reported for block {bh} whose true height is {truth}"));
        }
    }
    for bh in spec.gone.iter() {
        if want.contains(bh) {
            continue;
        }
        if let Some(hh) = idx.get_height(bh) {
            return found("component:stale_block_returned", format!("{at}: block {bh} was disconnected or has aged out, but a height ({hh}) is still reported for it"));
        }
    }
    let mut want_entries: BTreeMap<Txid, BlockHash> = BTreeMap::new();
    for (bh, ks) in window.iter() {
        for k in ks {
            want_entries.insert(*k, *bh);
        }
    }
    let got_entries: BTreeMap<Txid, BlockHash> = entries.into_iter().collect();
    if got_entries != want_entries {
        let missing = want_entries.keys().filter(|k| !got_entries.contains_key(*k)).count();
        let extra = got_entries.keys().filter(|k| !want_entries.contains_key(*k)).count();
        let wrong = want_entries.iter().filter(|(k, b)| got_entries.get(*k).map(|x| x != *b).unwrap_or(false)).count();
        return found(
            "component:index_entries",
            format!("{at}: {missing} transactions of the last {} blocks are missing, {extra} entries belong to blocks that are gone, {wrong} map to the wrong block", window.len()),
        );
    }
    for (k, b) in want_entries.iter() {
        if idx.get(k) != Some(b) {
            return found("component:lookup", format!("{at}: look-up of {k} does not return its block"));
        }
    }
    for k in spec.pool.iter() {
        if idx.get(k).is_some() {
            return found("component:stale_entry_returned", format!("{at}: {k} was only confirmed in a disconnected block but is still returned"));
        }
    }
    None
}

pub fn idx_signature(property: &str, f: &IdxFound) -> String {
    format!("{}|{}", property, f.clause)
}

pub fn minimise_idx(orig: &IdxHistory, sig: &str, budget: usize) -> IdxHistory {
    let reproduces = |h: &IdxHistory| run_idx(h).found.map(|f| idx_signature("C19", &f) == sig).unwrap_or(false);
    let mut best = orig.clone();
    let mut used = 0;
    // cut after the failing operation
    if let Some(f) = run_idx(&best).found {
        best.ops.truncate(f.op_index + 1);
    }
    // drop single operations
    let mut i = 0;
    while i < best.ops.len() && used < budget {
        let mut c = best.clone();
        c.ops.remove(i);
        used += 1;
        if reproduces(&c) {
            best = c;
        } else {
            i += 1;
        }
    }
    // simplify what is left
    for i in 0..best.ops.len() {
        if used >= budget {
            break;
        }
        if let IdxOp::Connect { fresh, back } = best.ops[i].clone() {
            for cand in [
                IdxOp::Connect { fresh: 0, back: vec![] },
                IdxOp::Connect { fresh: fresh.min(1), back: vec![] },
                IdxOp::Connect { fresh, back: back.iter().take(1).cloned().collect() },
            ] {
                if cand == best.ops[i] {
                    continue;
                }
                let mut c = best.clone();
                c.ops[i] = cand;
                used += 1;
                if reproduces(&c) {
                    best = c;
                    break;
                }
            }
        }
    }
    while best.n > 1 && used < budget {
        let mut c = best.clone();
        c.n -= 1;
        used += 1;
        if reproduces(&c) {
            best = c;
        } else {
            break;
        }
    }
    best
}
