//! C18, store level: seeded sequences of `WTClient` mutator calls over several towers sharing locators, with the state
//! compared after *every* prefix three ways -- the live instance's memory, the sqlite file (second read-only
//! connection) and a second `WTClient` freshly loaded from the same file (the "restart") -- against a small reference
//! model. The handler-level engine (client.rs) reaches these mutators only in the orders the handlers produce; this
//! drive calls them in any order the statement's quantifier allows.

use std::collections::{BTreeMap, BTreeSet};
use std::path::{Path, PathBuf};

use bitcoin::secp256k1::{PublicKey, Secp256k1, SecretKey};
use serde::{Deserialize, Serialize};
use tokio::sync::mpsc::{unbounded_channel, UnboundedReceiver};

use teos_common::appointment::{Appointment, Locator};
use teos_common::cryptography;
use teos_common::receipts::{AppointmentReceipt, RegistrationReceipt};
use teos_common::TowerId;
use watchtower_plugin::wt_client::{RevocationData, WTClient};
use watchtower_plugin::{MisbehaviorProof, TowerStatus};

use crate::client::{read_client_db, CFoundC, ClientResult, ClientStats};
use crate::rng::{derive, Rng};

#[derive(Serialize, Deserialize, Clone, Debug, PartialEq, Eq)]
pub enum SOp {
    /// Registration / renewal: `dexp` and `dslots` are added to the known expiry / available slots (0 or negative: the
    /// receipt does not extend the subscription and must be refused).
    Register {
        t: u32,
        dexp: i32,
        dslots: i32,
        /// registered at the tower's other network address (the user moved to its onion / clearnet address)
        #[serde(default)]
        alt: bool,
    },
    /// Acknowledgement for commitment `c` (tower tells `slots` available afterwards).
    Receipt { t: u32, c: u32, slots: u32 },
    Pending { t: u32, c: u32 },
    Invalid { t: u32, c: u32 },
    RemovePending { t: u32, c: u32 },
    /// The tower is flagged with a proof carrying an acknowledgement signed by another key (possibly for a commitment
    /// it had acknowledged properly before: a retrier that outlived an abandon + re-registration can send it again).
    Misbehave { t: u32, c: u32 },
    Abandon { t: u32 },
    /// The live instance is dropped and replaced by a freshly loaded one.
    Restart,
}

impl SOp {
    pub fn kind(&self) -> &'static str {
        match self {
            SOp::Register { .. } => "register",
            SOp::Receipt { .. } => "receipt",
            SOp::Pending { .. } => "pending",
            SOp::Invalid { .. } => "invalid",
            SOp::RemovePending { .. } => "remove_pending",
            SOp::Misbehave { .. } => "misbehave",
            SOp::Abandon { .. } => "abandon",
            SOp::Restart => "restart",
        }
    }
}

#[derive(Serialize, Deserialize, Clone, Debug, PartialEq, Eq)]
pub struct StoreHistory {
    pub property: String,
    pub seed: u64,
    pub n_towers: u32,
    pub n_commitments: u32,
    pub ops: Vec<SOp>,
}

#[derive(Serialize, Deserialize, Clone, Debug)]
pub struct StoreReplay {
    pub property: String,
    pub signature: String,
    pub detail: String,
    pub engine: String,
    pub store_history: StoreHistory,
}

pub fn gen_store_history(seed: u64) -> StoreHistory {
    let mut r = Rng::new(derive(seed, "store", 0));
    let n_towers = r.range(1, 3) as u32;
    let n_commitments = r.range(1, 4) as u32;
    let mut ops = vec![];
    for t in 0..n_towers {
        if r.chance(9, 10) {
            ops.push(SOp::Register { t, dexp: 100, dslots: 100, alt: false });
        }
    }
    let n = r.range(4, 30);
    let tw = |r: &mut Rng| r.below(n_towers as u64) as u32;
    let cm = |r: &mut Rng| r.below(n_commitments as u64) as u32;
    for _ in 0..n {
        match r.weighted(&[8, 14, 16, 12, 10, 10, 10, 4, 8, 8]) {
            0 => ops.push(SOp::Register {
                t: tw(&mut r),
                dexp: *r.pick(&[100i32, 1, 0, -1, 50]),
                dslots: *r.pick(&[100i32, 1, 0, -5, 10]),
                alt: r.chance(1, 3),
            }),
            1 => ops.push(SOp::Receipt { t: tw(&mut r), c: cm(&mut r), slots: r.range(0, 200) as u32 }),
            2 => ops.push(SOp::Pending { t: tw(&mut r), c: cm(&mut r) }),
            3 => ops.push(SOp::Invalid { t: tw(&mut r), c: cm(&mut r) }),
            4 => ops.push(SOp::RemovePending { t: tw(&mut r), c: cm(&mut r) }),
            5 => {
                // pending -> accepted
                let (t, c) = (tw(&mut r), cm(&mut r));
                ops.push(SOp::Pending { t, c });
                ops.push(SOp::Receipt { t, c, slots: r.range(0, 200) as u32 });
                ops.push(SOp::RemovePending { t, c });
            }
            6 => {
                // pending -> invalid
                let (t, c) = (tw(&mut r), cm(&mut r));
                ops.push(SOp::Pending { t, c });
                ops.push(SOp::Invalid { t, c });
                ops.push(SOp::RemovePending { t, c });
            }
            7 => ops.push(SOp::Misbehave { t: tw(&mut r), c: cm(&mut r) }),
            8 => {
                let t = tw(&mut r);
                ops.push(SOp::Abandon { t });
                if r.chance(1, 2) {
                    ops.push(SOp::Register { t, dexp: 100, dslots: 100, alt: r.chance(1, 3) });
                }
            }
            _ => ops.push(SOp::Restart),
        }
    }
    StoreHistory {
        property: "C18".into(),
        seed,
        n_towers,
        n_commitments,
        ops,
    }
}

#[derive(Clone, Debug, Default, PartialEq, Eq)]
struct MTower {
    addr: String,
    slots: u32,
    start: u32,
    expiry: u32,
    /// locator -> (start_block, user_signature, tower_signature)
    receipts: BTreeMap<Vec<u8>, (u32, String, String)>,
    pending: BTreeSet<Vec<u8>>,
    invalid: BTreeSet<Vec<u8>>,
    proof: Option<Vec<u8>>,
    reg_expiries: BTreeSet<u32>,
}

struct Store {
    dir: PathBuf,
    rt: tokio::runtime::Runtime,
    wt: Option<WTClient>,
    _rx: Vec<UnboundedReceiver<(TowerId, RevocationData)>>,
    tower_keys: Vec<(SecretKey, TowerId)>,
    other_key: SecretKey,
    apps: Vec<Appointment>,
    model: BTreeMap<u32, MTower>,
    found: Vec<CFoundC>,
    cur: usize,
    cur_kind: String,
    stats: ClientStats,
}

fn key_from(seed: u64, label: &str, i: u64) -> SecretKey {
    let mut n = 0u64;
    loop {
        let mut b = [0u8; 32];
        let mut r = Rng::new(derive(seed, label, i * 1000 + n));
        for x in b.iter_mut() {
            *x = r.below(256) as u8;
        }
        if let Ok(sk) = SecretKey::from_slice(&b) {
            return sk;
        }
        n += 1;
    }
}

impl Store {
    fn report(&mut self, clause: &str, detail: String) {
        self.found.push(CFoundC {
            property: "C18",
            clause: clause.to_string(),
            op_index: self.cur,
            op_kind: self.cur_kind.clone(),
            detail,
        });
    }

    fn probe(&mut self, name: &str) {
        *self.stats.probes.entry(name.to_string()).or_insert(0) += 1;
    }

    fn load(&mut self) -> WTClient {
        let (tx, rx) = unbounded_channel();
        self._rx.push(rx);
        let dir = self.dir.clone();
        self.rt.block_on(WTClient::new(dir, tx))
    }

    fn tid(&self, t: u32) -> TowerId {
        self.tower_keys[t as usize].1
    }

    fn loc(&self, c: u32) -> Locator {
        self.apps[c as usize].locator
    }

    fn apply(&mut self, op: &SOp) {
        let mut wt = self.wt.take().expect("HARNESS: no live client");
        match op {
            SOp::Register { t, dexp, dslots, alt } => {
                let tid = self.tid(*t);
                let known = self.model.get(t).cloned();
                let (slots, start, expiry) = match &known {
                    None => (100u32, 10u32, 110u32),
                    Some(m) => (
                        (m.slots as i64 + *dslots as i64).clamp(0, u32::MAX as i64) as u32,
                        m.start,
                        (m.expiry as i64 + *dexp as i64).clamp(0, u32::MAX as i64) as u32,
                    ),
                };
                let mut receipt = RegistrationReceipt::new(wt.user_id, slots, start, expiry);
                receipt.sign(&self.tower_keys[*t as usize].0);
                let addr = if *alt { format!("tower{t}.alt:9814") } else { format!("tower{t}.sim:9814") };
                let res = wt.add_update_tower(tid, &addr, &receipt);
                let extends = match &known {
                    None => true,
                    Some(m) => expiry > m.expiry && slots > m.slots,
                };
                match (extends, res.is_ok()) {
                    (true, true) => {
                        let m = self.model.entry(*t).or_default();
                        m.addr = addr;
                        m.slots = slots;
                        m.start = start;
                        m.expiry = expiry;
                        m.reg_expiries.insert(expiry);
                        self.probe(if known.is_some() { "store_renewal" } else { "store_registration" });
                    }
                    (false, false) => self.probe("store_non_extending_refused"),
                    (true, false) => self.report("registration_refused", format!("op #{}: a registration extending expiry and slots was refused: {res:?}", self.cur)),
                    (false, true) => self.report(
                        "non_extending_registration_recorded",
                        format!("op #{}: a registration that does not strictly extend the known subscription (expiry {expiry}, slots {slots}) was recorded", self.cur),
                    ),
                }
            }
            SOp::Receipt { t, c, slots } => {
                let tid = self.tid(*t);
                let loc = self.loc(*c);
                let mut r = AppointmentReceipt::new(format!("usersig-{c}"), 100 + *c);
                r.sign(&self.tower_keys[*t as usize].0);
                wt.add_appointment_receipt(tid, loc, *slots, &r);
                if let Some(m) = self.model.get_mut(t) {
                    if !m.receipts.contains_key(&loc.to_vec()) {
                        m.receipts
                            .insert(loc.to_vec(), (r.start_block(), r.user_signature().to_string(), r.signature().unwrap()));
                        m.slots = *slots;
                        // fix (atomic transitions): an acknowledged appointment is no longer pending, nor invalid
                        m.pending.remove(&loc.to_vec());
                        m.invalid.remove(&loc.to_vec());
                    } else {
                        self.probe("store_duplicate_receipt");
                    }
                }
            }
            SOp::Pending { t, c } => {
                let tid = self.tid(*t);
                let app = self.apps[*c as usize].clone();
                wt.add_pending_appointment(tid, &app);
                if let Some(m) = self.model.get_mut(t) {
                    // fix bd54552 (C05: exactly one state): an appointment the tower has already answered -- acknowledged or
                    // rejected -- does not become pending when a repeated request for it fails
                    if m.receipts.contains_key(&app.locator.to_vec()) || m.invalid.contains(&app.locator.to_vec()) {
                        self.probe("store_pending_after_answer_ignored");
                    } else {
                        m.pending.insert(app.locator.to_vec());
                    }
                }
            }
            SOp::Invalid { t, c } => {
                let tid = self.tid(*t);
                let app = self.apps[*c as usize].clone();
                wt.add_invalid_appointment(tid, &app);
                if let Some(m) = self.model.get_mut(t) {
                    // an appointment the tower has acknowledged stays accepted whatever it says later
                    if m.receipts.contains_key(&app.locator.to_vec()) {
                        self.probe("store_invalid_after_accepted_ignored");
                    } else if m.invalid.insert(app.locator.to_vec()) {
                        // fix (atomic transitions): an appointment recorded as invalid is no longer pending
                        m.pending.remove(&app.locator.to_vec());
                    }
                }
            }
            SOp::RemovePending { t, c } => {
                let tid = self.tid(*t);
                let loc = self.loc(*c);
                wt.remove_pending_appointment(tid, loc);
                if let Some(m) = self.model.get_mut(t) {
                    if m.pending.remove(&loc.to_vec()) {
                        self.probe("store_pending_removed");
                    }
                }
            }
            SOp::Misbehave { t, c } => {
                let tid = self.tid(*t);
                let loc = self.loc(*c);
                // as the handlers do: the offending acknowledgement is stored, then the tower is flagged
                let mut r = AppointmentReceipt::new(format!("usersig-{c}"), 100 + *c);
                r.sign(&self.other_key);
                let recovered = TowerId(PublicKey::from_secret_key(&Secp256k1::new(), &self.other_key));
                let known = self.model.contains_key(t);
                // (fix b79ba72: the offending receipt replaces one the tower may have given for this appointment before)
                if known {
                    // (the proof carries the offending acknowledgement; storing the proof stores it as the receipt)
                    let already = self.model[t].proof.is_some();
                    let rec = (r.start_block(), r.user_signature().to_string(), r.signature().unwrap());
                    wt.flag_misbehaving_tower(tid, MisbehaviorProof::new(loc, r, recovered));
                    let m = self.model.get_mut(t).unwrap();
                    if !already {
                        m.receipts.insert(loc.to_vec(), rec);
                        m.proof = Some(loc.to_vec());
                    }
                    self.probe("store_misbehaviour");
                }
            }
            SOp::Abandon { t } => {
                let tid = self.tid(*t);
                let res = wt.remove_tower(tid);
                match (self.model.remove(t).is_some(), res.is_ok()) {
                    (true, true) => self.probe("store_abandon"),
                    (false, false) => {}
                    (true, false) => self.report("abandon_failed", format!("op #{}: abandoning a known tower failed: {res:?}", self.cur)),
                    (false, true) => self.report("abandon_unknown_ok", format!("op #{}: abandoning an unknown tower succeeded", self.cur)),
                }
            }
            SOp::Restart => {
                drop(wt);
                wt = self.load();
                self.probe("store_restart");
            }
        }
        self.wt = Some(wt);
    }

    /// memory of `wt` vs the model. `loaded`: the instance was just loaded (status is derived from the stored data).
    fn compare_memory(&mut self, wt: &WTClient, which: &str, loaded: bool) {
        let at = format!("after op #{} ({})", self.cur, self.cur_kind);
        let mem: BTreeSet<Vec<u8>> = wt.towers.keys().map(|k| k.to_vec()).collect();
        let want: BTreeSet<Vec<u8>> = self.model.keys().map(|t| self.tid(*t).to_vec()).collect();
        if mem != want {
            self.report(
                if loaded { "reload_tower_set" } else { "tower_set_memory_vs_model" },
                format!("{at}: {which} knows {} towers, expected {}", mem.len(), want.len()),
            );
            return;
        }
        let model = self.model.clone();
        for (t, m) in model.iter() {
            let tid = self.tid(*t);
            let s = &wt.towers[&tid];
            let v = serde_json::to_value(s).unwrap_or_default();
            let start = v.get("subscription_start").and_then(|x| x.as_u64()).unwrap_or(u64::MAX);
            let pend: BTreeSet<Vec<u8>> = s.pending_appointments.iter().map(|l| l.to_vec()).collect();
            let inv: BTreeSet<Vec<u8>> = s.invalid_appointments.iter().map(|l| l.to_vec()).collect();
            let pre = if loaded { "reload_" } else { "" };
            if s.available_slots != m.slots {
                self.report(&format!("{pre}slots"), format!("{at}: {which} tower {t}: available slots {} expected {}", s.available_slots, m.slots));
            }
            if s.subscription_expiry != m.expiry || start != m.start as u64 {
                self.report(
                    &format!("{pre}subscription"),
                    format!("{at}: {which} tower {t}: subscription ({start}, {}) expected ({}, {})", s.subscription_expiry, m.start, m.expiry),
                );
            }
            if s.net_addr.net_addr() != m.addr {
                self.report(&format!("{pre}net_addr"), format!("{at}: {which} tower {t}: address {} expected {}", s.net_addr.net_addr(), m.addr));
            }
            if pend != m.pending {
                self.report(&format!("{pre}pending"), format!("{at}: {which} tower {t}: {} pending appointments, expected {}", pend.len(), m.pending.len()));
            }
            if inv != m.invalid {
                self.report(&format!("{pre}invalid"), format!("{at}: {which} tower {t}: {} invalid appointments, expected {}", inv.len(), m.invalid.len()));
            }
            if m.proof.is_some() && s.status != TowerStatus::Misbehaving {
                self.report("proof_implies_misbehaving", format!("{at}: {which} tower {t} has a stored proof but status {}", s.status));
            }
            if loaded {
                let want = if m.proof.is_some() {
                    TowerStatus::Misbehaving
                } else if !m.pending.is_empty() {
                    TowerStatus::TemporaryUnreachable
                } else {
                    TowerStatus::Reachable
                };
                if s.status != want {
                    self.report("reload_status", format!("{at}: reloaded tower {t} has status {}, expected {want}", s.status));
                }
            }
        }
    }

    fn compare_disk(&mut self, wt: &WTClient) {
        let at = format!("after op #{} ({})", self.cur, self.cur_kind);
        let Some(db) = read_client_db(&self.dir.join("watchtowers_db.sql3")) else {
            self.report("db_unreadable", format!("{at}: database cannot be read"));
            return;
        };
        if db.fk_violations > 0 {
            self.report("dangling_rows", format!("{at}: {} foreign key violations", db.fk_violations));
        }
        let mut want_receipts = BTreeMap::new();
        let mut want_pending = BTreeSet::new();
        let mut want_invalid = BTreeSet::new();
        let mut want_towers = BTreeMap::new();
        let mut want_proofs = BTreeSet::new();
        let mut want_regs = BTreeSet::new();
        for (t, m) in self.model.iter() {
            let tid = self.tid(*t).to_vec();
            want_towers.insert(tid.clone(), (m.addr.clone(), m.slots));
            for (l, r) in m.receipts.iter() {
                want_receipts.insert((l.clone(), tid.clone()), r.clone());
            }
            for l in m.pending.iter() {
                want_pending.insert((l.clone(), tid.clone()));
            }
            for l in m.invalid.iter() {
                want_invalid.insert((l.clone(), tid.clone()));
            }
            if m.proof.is_some() {
                want_proofs.insert(tid.clone());
            }
            for e in m.reg_expiries.iter() {
                want_regs.insert((tid.clone(), *e));
            }
        }
        if db.towers != want_towers {
            self.report("tower_rows", format!("{at}: towers table holds {:?}, expected {:?}", db.towers.values().collect::<Vec<_>>(), want_towers.values().collect::<Vec<_>>()));
        }
        if db.receipts != want_receipts {
            self.report("receipt_rows", format!("{at}: {} appointment receipts stored, expected {} (or contents differ)", db.receipts.len(), want_receipts.len()));
        }
        if db.pending != want_pending {
            self.report("pending_rows", format!("{at}: {} pending rows, expected {}", db.pending.len(), want_pending.len()));
        }
        if db.invalid != want_invalid {
            self.report("invalid_rows", format!("{at}: {} invalid rows, expected {}", db.invalid.len(), want_invalid.len()));
        }
        let got_proofs: BTreeSet<Vec<u8>> = db.proofs.keys().cloned().collect();
        if got_proofs != want_proofs {
            self.report("proof_rows", format!("{at}: {} proofs stored, expected {}", got_proofs.len(), want_proofs.len()));
        }
        let got_regs: BTreeSet<(Vec<u8>, u32)> = db.registration_receipts.keys().cloned().collect();
        if got_regs != want_regs {
            self.report("registration_rows", format!("{at}: {} registration receipts stored, expected {}", got_regs.len(), want_regs.len()));
        }
        // bodies: every referenced one is there, byte for byte
        let referenced: BTreeSet<Vec<u8>> = want_pending.iter().chain(want_invalid.iter()).map(|(l, _)| l.clone()).collect();
        for l in referenced.iter() {
            let app = self.apps.iter().find(|a| &a.locator.to_vec() == l).unwrap();
            match db.bodies.get(l) {
                None => {
                    self.report("shared_body_deleted", format!("{at}: appointment {} is still referenced but its data is gone", hex::encode(l)));
                }
                Some((blob, tsd)) => {
                    if blob != &app.encrypted_blob || *tsd != app.to_self_delay {
                        self.report("body_differs", format!("{at}: stored data of appointment {} differs", hex::encode(l)));
                    }
                }
            }
        }
        if referenced.len() > 1 || self.model.values().filter(|m| !m.pending.is_empty() || !m.invalid.is_empty()).count() > 1 {
            self.probe("store_shared_bodies_checked");
        }
        // gettowerinfo's source: the full record per tower
        let model = self.model.clone();
        for (t, m) in model.iter() {
            let tid = self.tid(*t);
            match wt.load_tower_info(tid) {
                None => self.report("tower_record_missing", format!("{at}: no tower record for tower {t}")),
                Some(info) => {
                    let recs: BTreeMap<Vec<u8>, String> = info.appointments.iter().map(|(l, s)| (l.to_vec(), s.clone())).collect();
                    let want: BTreeMap<Vec<u8>, String> = m.receipts.iter().map(|(l, r)| (l.clone(), r.2.clone())).collect();
                    let pend: BTreeSet<Vec<u8>> = info.pending_appointments.iter().map(|a| a.locator.to_vec()).collect();
                    let inv: BTreeSet<Vec<u8>> = info.invalid_appointments.iter().map(|a| a.locator.to_vec()).collect();
                    if recs != want || pend != m.pending || inv != m.invalid || info.available_slots != m.slots
                        || info.subscription_expiry != m.expiry || info.subscription_start != m.start || info.net_addr != m.addr
                        || info.misbehaving_proof.is_some() != m.proof.is_some()
                    {
                        self.report(
                            "tower_record_differs",
                            format!(
                                "{at}: record of tower {t}: {} receipts / {} pending / {} invalid / slots {} / ({}, {}) / proof {}; expected {} / {} / {} / {} / ({}, {}) / {}",
                                recs.len(), pend.len(), inv.len(), info.available_slots, info.subscription_start, info.subscription_expiry, info.misbehaving_proof.is_some(),
                                want.len(), m.pending.len(), m.invalid.len(), m.slots, m.start, m.expiry, m.proof.is_some()
                            ),
                        );
                    }
                    for a in info.pending_appointments.iter().chain(info.invalid_appointments.iter()) {
                        if !self.apps.contains(a) {
                            self.report("body_differs", format!("{at}: record of tower {t} returns altered appointment data"));
                        }
                    }
                    match wt.get_registration_receipt(tid) {
                        Some(r) if r.subscription_expiry() == m.expiry && r.available_slots() <= u32::MAX && r.verify(&tid) => {}
                        other => self.report(
                            "latest_registration_receipt",
                            format!("{at}: latest registration receipt of tower {t} is {:?}, expected one with expiry {} that verifies", other.map(|r| r.subscription_expiry()), m.expiry),
                        ),
                    }
                }
            }
        }
        let mut h = self.stats.digest;
        for b in format!("{db:?}").as_bytes() {
            h ^= *b as u64;
            h = h.wrapping_mul(0x100000001b3);
        }
        self.stats.digest = h;
    }
}

fn scratch(seed: u64) -> PathBuf {
    use std::sync::atomic::{AtomicU64, Ordering};
    static N: AtomicU64 = AtomicU64::new(0);
    let n = N.fetch_add(1, Ordering::SeqCst);
    let base = if Path::new("/dev/shm").is_dir() { PathBuf::from("/dev/shm") } else { std::env::temp_dir() };
    base.join(format!("teos-sim-store-{}-{}-{}", std::process::id(), n, seed % 1000))
}

pub fn run_store(h: &StoreHistory) -> ClientResult {
    crate::exec::install_panic_hook();
    crate::seed_os_randomness(derive(h.seed, "os", 0));
    let dir = scratch(h.seed);
    let _ = std::fs::remove_dir_all(&dir);
    let rt = tokio::runtime::Builder::new_current_thread().enable_all().build().expect("HARNESS: runtime");
    let tower_keys: Vec<(SecretKey, TowerId)> = (0..h.n_towers)
        .map(|t| {
            let sk = key_from(h.seed, "tower", t as u64);
            (sk, TowerId(PublicKey::from_secret_key(&Secp256k1::new(), &sk)))
        })
        .collect();
    let apps: Vec<Appointment> = (0..h.n_commitments)
        .map(|c| {
            let mut r = Rng::new(derive(h.seed, "app", c as u64));
            let mut l = [0u8; 16];
            for x in l.iter_mut() {
                *x = r.below(256) as u8;
            }
            let len = *r.pick(&[1usize, 40, 300]);
            let blob: Vec<u8> = (0..len).map(|_| r.below(256) as u8).collect();
            Appointment::new(Locator::from_slice(&l).unwrap(), blob, 42 + c)
        })
        .collect();
    let mut s = Store {
        dir: dir.clone(),
        rt,
        wt: None,
        _rx: vec![],
        tower_keys,
        other_key: key_from(h.seed, "other", 0),
        apps,
        model: BTreeMap::new(),
        found: vec![],
        cur: 0,
        cur_kind: "boot".into(),
        stats: ClientStats::default(),
    };
    let res = std::panic::catch_unwind(std::panic::AssertUnwindSafe(|| {
        let wt = s.load();
        s.wt = Some(wt);
        for (i, op) in h.ops.iter().enumerate() {
            s.cur = i;
            s.cur_kind = op.kind().to_string();
            s.apply(op);
            s.stats.ops += 1;
            let wt = s.wt.take().unwrap();
            s.compare_memory(&wt, "memory:", false);
            s.compare_disk(&wt);
            // the restart after this prefix
            let fresh = s.load();
            s.compare_memory(&fresh, "reloaded:", true);
            drop(fresh);
            s.wt = Some(wt);
            if !s.found.is_empty() {
                break;
            }
        }
    }));
    if res.is_err() {
        let info = crate::exec::LAST_PANIC.with(|p| p.borrow_mut().take());
        let (loc, msg) = info.map(|i| (i.location, i.message)).unwrap_or(("?".into(), "?".into()));
        if msg.starts_with("HARNESS") || loc.contains("/verif/sim/") || loc.starts_with("src/") {
            eprintln!("HARNESS ERROR: panic at {loc}: {msg}");
            std::process::exit(2);
        }
        s.report(
            "client_abort",
            format!("panic at {}: {}", crate::exec::normalise_location(&loc), crate::exec::first_line(&msg)),
        );
    }
    s.wt = None;
    let _ = cryptography::get_random_keypair; // (keeps the import used in every cfg)
    let _ = std::fs::remove_dir_all(&dir);
    s.stats.nontrivial = s.stats.probes.contains_key("store_abandon")
        || s.stats.probes.contains_key("store_pending_removed")
        || s.stats.probes.contains_key("store_renewal")
        || s.stats.probes.contains_key("store_misbehaviour");
    for f in s.found.iter() {
        let mut hh = s.stats.digest;
        for b in format!("{} {}", f.op_index, f.clause).as_bytes() {
            hh ^= *b as u64;
            hh = hh.wrapping_mul(0x100000001b3);
        }
        s.stats.digest = hh;
    }
    ClientResult { found: s.found, stats: s.stats }
}

pub fn run_store_in_thread(h: &StoreHistory) -> ClientResult {
    let h2 = h.clone();
    std::thread::Builder::new()
        .stack_size(16 << 20)
        .spawn(move || run_store(&h2))
        .unwrap()
        .join()
        .unwrap_or_else(|_| {
            eprintln!("HARNESS ERROR: store simulation thread died");
            std::process::exit(2)
        })
}

fn reproduces(h: &StoreHistory, sig: &str) -> bool {
    let res = run_store_in_thread(h);
    res.found.first().map(|f| crate::client_check::client_signature("C18", f) == sig).unwrap_or(false)
}

pub fn minimise_store(orig: &StoreHistory, sig: &str, budget: usize) -> StoreHistory {
    let mut best = orig.clone();
    let mut used = 0;
    let mut chunk = (best.ops.len() / 2).max(1);
    while used < budget {
        let mut i = 0;
        let mut progress = false;
        while i < best.ops.len() && used < budget {
            let end = (i + chunk).min(best.ops.len());
            let mut c = best.clone();
            c.ops.drain(i..end);
            used += 1;
            if !c.ops.is_empty() && reproduces(&c, sig) {
                best = c;
                progress = true;
            } else {
                i = end;
            }
        }
        if chunk == 1 && !progress {
            break;
        }
        if !progress {
            chunk /= 2;
        }
        if chunk == 0 {
            break;
        }
    }
    best
}
