#!/bin/bash
# Evaluates one seeded change: applies it to /repo, builds the simulator into a SEPARATE target dir, reverts /repo at once
# (so /repo is dirty only for the duration of the build), then runs the quick tier of the given properties with that binary.
# usage: tools/seed_eval.sh <patch.diff> <prop> [<prop>...]      (VERIF_TIER=thorough for the thorough tier)
set -u
patch=$1; shift
cd "$(dirname "$0")/../sim" || exit 2
export CARGO_NET_OFFLINE=true CARGO_TARGET_DIR=/verif/sim/target-seed
[ -n "$(git -C /repo status --porcelain)" ] && { echo "/repo is not clean"; exit 2; }
git -C /repo apply "$patch" || exit 2
cp /repo/Cargo.lock ./Cargo.lock
cargo +1.81.0 build --offline --release > /tmp/seed-build.log 2>&1; b=$?
git -C /repo checkout -- .
[ $b -ne 0 ] && { tail -30 /tmp/seed-build.log; exit 2; }
cd ..
for id in "$@"; do
  ./sim/target-seed/release/teos-sim "$id" --tier "${VERIF_TIER:-quick}" 2>&1 | grep -v "^VERIF_SEED" | cut -c1-400 | tail -12
  echo "[$id exit=${PIPESTATUS[0]}]"
done
