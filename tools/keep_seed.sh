#!/bin/bash
# usage: tools/keep_seed.sh <id> <property> <mutation> <needs> <detected_by> <signature>
id=$1; d=/verif/seeded/$id; mkdir -p $d
cp /tmp/wt-out/$id/patch.diff /tmp/wt-out/$id/demo.diff /tmp/wt-out/$id/NOTES.md $d/
jq -n --arg seed "$id" --arg p "$2" --arg m "$3" --arg n "$4" --arg det "$5" --arg sig "$6" '{seed:$seed, property:$p, mutation:$m, needs_to_manifest:$n, author:"fresh sub-agent given only the property record (text, quantifier, anchors), the one-line list of earlier changes for that property and its own scratch worktree; nothing from /verif", confirmed_by_me:{full_suite_with_mutation:"275 passed", demo_with_mutation:"fails", demo_without_mutation:"passes", script:"tools/verify_seed.sh"}, detected_by:$det, violation_signature:$sig, patch_applied:"patch.diff"}' > $d/meta.json
