#!/bin/bash
# Builds the simulator once against /repo's working tree, then runs the thorough tier of every claimed property in turn
# with that one binary (so later edits to /repo do not change what is being explored). Logs in ./thorough-logs/.
# usage: tools/thorough_all.sh [jobs] [ids...]
cd "$(dirname "$0")/.." || exit 2
jobs=${1:-8}; shift
ids=${*:-C01 C02 C03 C04 C05 C06 C07 C08 C09 C10 C11 C12 C13 C14 C15 C18 C19}
./check --build-only || exit 2
mkdir -p thorough-logs
rc=0
for id in $ids; do
  ./sim/target/release/teos-sim "$id" --tier thorough --jobs "$jobs" > "thorough-logs/$id.log" 2>&1
  e=$?
  echo "$(date +%H:%M:%S) $id exit=$e $(tail -1 thorough-logs/$id.log | cut -c1-160)"
  [ $e -ne 0 ] && rc=1
done
exit $rc
