#!/bin/bash
# Confirms a seeded property-breaking change in a scratch worktree of /repo (never in /repo itself):
#   1. demo alone (unchanged code)  -> the demonstration test passes
#   2. demo + change                -> the demonstration test fails
#   3. change alone                 -> the whole pinned suite passes (275)
# usage: tools/verify_seed.sh <worktree> <patch.diff> <demo.diff> <nextest filter expr or test-name substring>
set -u
wt=$1; patch=$2; demo=$3; filt=$4
cd "$wt" || exit 2
export CARGO_NET_OFFLINE=true
git checkout -q -- . && git clean -fdq -e target
run_demo() { cargo nextest run --workspace --offline --no-fail-fast --test-threads 8 -E "test(/$filt/)" 2>&1 | grep -E "^\s+(Summary|FAIL|PASS)|error(\[|:)|tests run" | tail -8; }
echo "== 1. demo on unchanged code (must pass)"
git apply "$demo" || { echo "demo.diff does not apply"; exit 2; }
run_demo
echo "== 2. demo with the change (must fail)"
git apply "$patch" || { echo "patch.diff does not apply"; exit 2; }
run_demo
echo "== 3. full suite with the change only (must be 275 passed)"
git apply -R "$demo" || exit 2
cargo nextest run --workspace --offline --no-fail-fast --test-threads 8 2>&1 | grep -E "Summary|^\s+FAIL|error(\[|:)" | tail -8
git checkout -q -- . && git clean -fdq -e target
